import TpmVerif.Base.Bytes
/-!
  The library API (`tpm_library.c`, `tpm_tpm2_interface.c`, `tpm_tpm12_interface.c`): version choice, MainInit/Terminate,
  the blob cache behind SetState/GetState, SetBufferSize, and TPMLIB_DecodeBlob's base64 reader.
  State blobs are opaque byte strings here; whether a blob is acceptable is an input (`valid`) — blob parsing is C06/C19.
-/
namespace TpmVerif.Model.Api
open TpmVerif

inductive Ver where | v12 | v2
  deriving Repr, DecidableEq

/-- one slot of `cached_blobs[]`: nothing, the "hide stored state" marker (SetState with NULL), or a blob -/
inductive Cache where
  | none
  | empty
  | blob (b : Bytes)
  deriving Repr, DecidableEq

def TPM_FAIL : Nat := 9
def TPM_INVALID_POSTINIT : Nat := 38
def TPM_BAD_TYPE : Nat := 52
def TPM_RETRY : Nat := 0x800

structure St where
  choice : Ver := .v12
  locked : Bool := false                 -- tpmvers_locked: set by MainInit, cleared by Terminate
  running : Bool := false                -- the TPM is powered on (TPM 2) / the instance exists (TPM 1.2)
  cache : Nat → Cache := fun _ => .none  -- by state type: 1 permanent, 2 volatile, 4 save state
  store : Nat → Option Bytes := fun _ => .none   -- what the storage callbacks hold, by state type
  buf12 : Nat := 4096
  buf2 : Nat := 4096

def setCache (s : St) (st : Nat) (c : Cache) : St := { s with cache := fun t => if t = st then c else s.cache t }
def clearCache (s : St) : St := { s with cache := fun _ => .none }

/-- TPMLIB_ChooseTPMVersion: refused between MainInit and Terminate; another version discards all cached blobs -/
def choose (s : St) (v : Option Ver) : St × Nat :=
  if s.locked then (s, TPM_FAIL) else
  match v with
  | none => (s, TPM_FAIL)
  | some v => (if v = s.choice then s else { clearCache s with choice := v }, 0)

/-- will the next MainInit manufacture a new TPM? Only when no permanent blob is cached and either storage has none or
    the "hide stored state" marker is set -/
def willManufacture (s : St) : Bool :=
  match s.cache 1 with
  | .blob _ => false
  | .empty => true
  | .none => (s.store 1).isNone

/-- what a successful MainInit takes out of the cache: the permanent and the volatile blob (or their "hide" markers). A cached
    save-state blob is not touched by MainInit — a TPM 1.2 reads it at TPM_Startup(ST_STATE) — and stays, also across Terminate. -/
def consumeStartBlobs (s : St) : St := { s with cache := fun t => if t = 1 ∨ t = 2 then .none else s.cache t }

/-- TPMLIB_MainInit with its observed result. A TPM 2 whose MainInit fails after the storage callbacks (state of the other
    TPM version in storage, a profile it cannot be manufactured with) is left powered on in failure mode
    (`_rpc__Signal_PowerOn` runs on every path of TPM2_MainInit): until Terminate the API treats it as running. -/
def mainInit (s : St) (ok : Bool) : St :=
  { (if ok then consumeStartBlobs s else s) with locked := true, running := ok || (s.choice == .v2) }

/-- the first TPM_Startup of a TPM 1.2 (any type) deletes the saved state and with it a save-state blob that is still cached;
    the TPM 2 never looks at that cache slot -/
def startupDone (s : St) : St := if s.choice = .v12 then setCache s 4 .none else s

def terminate (s : St) : St := { s with locked := false, running := false }

/-- TPMLIB_SetState. `valid` = the blob parses (and, for volatile/save-state blobs, matches the permanent state at hand) -/
def setState (s : St) (st : Nat) (blob : Option Bytes) (valid : Bool) : St × Nat :=
  match blob with
  | none => (setCache s st .empty, 0)              -- NULL hides stored state; accepted even while running
  | some b =>
    if s.running then (s, TPM_INVALID_POSTINIT) else
    if s.choice = .v2 ∧ st = 4 then (clearCache s, TPM_BAD_TYPE) else
    if valid then (setCache s st (.blob b), 0) else (clearCache s, 1)   -- 1 stands for "some error"

/-- TPMLIB_GetState before the TPM runs: the cached blob, else what storage holds -/
def getStateOffline (s : St) (st : Nat) : Nat × Option Bytes :=
  match s.cache st with
  | .blob b => (0, some b)
  | .empty => (0, none)
  | .none => match s.store st with
    | some b => (0, some b)
    | none => (TPM_RETRY, none)

/-- TPMLIB_SetBufferSize: 0 asks; anything else is clamped into [min, max] and becomes the size -/
def clamp (w mn mx : Nat) : Nat := if w > mx then mx else if w < mn then mn else w
def setBufferSize (cur w mn mx : Nat) : Nat := if w = 0 then cur else clamp w mn mx

/-! ### TPMLIB_DecodeBlob: tags, then base64 with everything that is not a base64 letter skipped -/

def b64chars : List Char := "ABCDEFGHIJKLMNOPQRSTUVWXYZabcdefghijklmnopqrstuvwxyz0123456789+/".toList
def b64val (c : Char) : Option Nat := b64chars.idxOf? c
def isB64Letter (c : Char) : Bool := (b64val c).isSome || c == '='

/-- decode groups of four sextets; a final group of 2 or 3 gives 1 or 2 bytes -/
def decodeSextets : List Nat → Bytes
  | a :: b :: c :: d :: rest =>
      UInt8.ofNat ((a * 4 + b / 16) % 256) :: UInt8.ofNat ((b % 16 * 16 + c / 4) % 256) :: UInt8.ofNat ((c % 4 * 64 + d) % 256) :: decodeSextets rest
  | [a, b, c] => [UInt8.ofNat ((a * 4 + b / 16) % 256), UInt8.ofNat ((b % 16 * 16 + c / 4) % 256)]
  | [a, b] => [UInt8.ofNat ((a * 4 + b / 16) % 256)]
  | _ => []

/-- the bytes a text decodes to: letters other than base64 letters are skipped, decoding stops at the padding -/
def b64decode (text : List Char) : Option Bytes :=
  let letters := text.filter isB64Letter
  let sext := (letters.takeWhile (· ≠ '=')).filterMap b64val
  if sext.length % 4 = 1 then none else some (decodeSextets sext)

/-- the sextets of a byte string: four per three bytes, two or three for a final group of one or two bytes -/
def toSextets : Bytes → List Nat
  | x :: y :: z :: rest =>
      x.toNat / 4 :: (x.toNat % 4 * 16 + y.toNat / 16) :: (y.toNat % 16 * 4 + z.toNat / 64) :: z.toNat % 64 :: toSextets rest
  | [x, y] => [x.toNat / 4, x.toNat % 4 * 16 + y.toNat / 16, y.toNat % 16 * 4]
  | [x] => [x.toNat / 4, x.toNat % 4 * 16]
  | [] => []

def b64char (k : Nat) : Char := b64chars.getD k 'A'

/-- standard base64 with padding -/
def b64encode (bs : Bytes) : List Char :=
  (toSextets bs).map b64char ++ List.replicate ((3 - bs.length % 3) % 3) '='

end TpmVerif.Model.Api
