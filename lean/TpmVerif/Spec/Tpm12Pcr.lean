/-!
  Hand-written expected copy of the TPM 1.2 PC Client PCR policy (TCG PC Client TIS, PCR attribute table and
  initial values).  Deliberately independent of `Gen.Tpm12`: `Props.C20` proves the generated tables equal these,
  and `Check.C20` judges the implementation's observed Extend/Reset decisions against them directly.
-/
namespace TpmVerif.Spec.Tpm12Pcr

/-- expected (pcrReset, pcrResetLocal, pcrExtendLocal): PCR 0–15 static, extendable from every locality; 16 and 23
    resettable/extendable from every locality; 17,18 reset by 4, extend by 4,3,2; 19 reset by 4, extend by 3,2; 20 reset
    by 4,2, extend by 3,2,1; 21,22 reset and extend by 2 only -/
def pcClient : List (Bool × Nat × Nat) :=
  List.replicate 16 (false, 0, 0x1f) ++
  [(true, 0x1f, 0x1f), (true, 0x10, 0x1c), (true, 0x10, 0x1c), (true, 0x10, 0x0c), (true, 0x14, 0x0e),
   (true, 0x04, 0x04), (true, 0x04, 0x04), (true, 0x1f, 0x1f)]

/-- initial value byte after power-on: 0–16 and 23 zero, 17–22 all ones -/
def initByte : List Nat := List.replicate 17 0 ++ List.replicate 6 255 ++ [0]

def mayReset (i loc : Nat) : Bool := match pcClient[i]? with | some (r, rl, _) => r && rl.testBit loc | none => false
def mayExtend (i loc : Nat) : Bool := match pcClient[i]? with | some (_, _, el) => el.testBit loc | none => false

end TpmVerif.Spec.Tpm12Pcr
