import TpmVerif.Base.Trace
import TpmVerif.Model.Clock
import TpmVerif.Check.C16
import TpmVerif.Model.Tpm12Frame
import TpmVerif.Check.C18
import TpmVerif.Model.Sha1
import TpmVerif.Model.Tpm12Core
import TpmVerif.Check.C20
