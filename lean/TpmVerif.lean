import TpmVerif.Base.Trace
import TpmVerif.Model.Clock
import TpmVerif.Check.C16
