/* C12: keys derive only from seed and template; objects stay bound and reclaimable. */
typedef struct { Buf pub; const char *name; int heavy; } C12T;
static C12T c12_t[8]; static int c12_nt;   /* 0-4 light templates, 5 RSA, 6 derivation parent */
static void c12_templates(void) {
    c12_nt = 0;
    for (int i = 0; i < 8; i++) b_reset(&c12_t[i].pub);
    /* 0: keyedhash HMAC-SHA256 signing key */
    { Buf *t = &c12_t[c12_nt].pub; b_u16(t, ALG_KEYEDHASH); b_u16(t, ALG_SHA256); b_u32(t, 0x00040472u); b_u16(t, 0); b_u16(t, ALG_HMAC); b_u16(t, ALG_SHA256); b_u16(t, 0); c12_t[c12_nt++].name = "kh-hmac"; }
    /* 1: keyedhash, SHA-384 name algorithm, a policy digest, unique field given */
    { Buf *t = &c12_t[c12_nt].pub; b_u16(t, ALG_KEYEDHASH); b_u16(t, 0x000C); b_u32(t, 0x00040432u); b_u16(t, 48); for (int q = 0; q < 48; q++) b_u8(t, q * 5 + 1); b_u16(t, ALG_HMAC); b_u16(t, ALG_SHA256); b_u16(t, 3); b_bytes(t, "abc", 3); c12_t[c12_nt++].name = "kh-policy"; }
    /* 2: AES-128-CFB symcipher */
    { Buf *t = &c12_t[c12_nt].pub; b_u16(t, 0x0025); b_u16(t, ALG_SHA256); b_u32(t, 0x00060472u); b_u16(t, 0); b_u16(t, 0x0006); b_u16(t, 128); b_u16(t, 0x0043); b_u16(t, 0); c12_t[c12_nt++].name = "aes128"; }
    /* 3: ECC P-256 storage key (restricted decrypt, AES-128-CFB) */
    { Buf *t = &c12_t[c12_nt].pub; b_u16(t, 0x0023); b_u16(t, ALG_SHA256); b_u32(t, 0x00030472u); b_u16(t, 0); b_u16(t, 0x0006); b_u16(t, 128); b_u16(t, 0x0043); b_u16(t, ALG_NULL); b_u16(t, 0x0003); b_u16(t, ALG_NULL); b_u16(t, 0); b_u16(t, 0); c12_t[c12_nt++].name = "p256-storage"; }
    /* 4: ECC P-384 ECDSA signing key */
    { Buf *t = &c12_t[c12_nt].pub; b_u16(t, 0x0023); b_u16(t, 0x000C); b_u32(t, 0x00040472u); b_u16(t, 0); b_u16(t, ALG_NULL); b_u16(t, 0x0018); b_u16(t, 0x000C); b_u16(t, 0x0004); b_u16(t, ALG_NULL); b_u16(t, 0); b_u16(t, 0); c12_t[c12_nt++].name = "p384-sign"; }
    /* 6 (index 5 below is RSA): keyedhash derivation parent (restricted decrypt, XOR with SHA-256 and KDF1_SP800_108) — placed after the RSA template */
    /* 5: RSA-2048 storage key */
    { Buf *t = &c12_t[c12_nt].pub; b_u16(t, 0x0001); b_u16(t, ALG_SHA256); b_u32(t, 0x00030472u); b_u16(t, 0); b_u16(t, 0x0006); b_u16(t, 128); b_u16(t, 0x0043); b_u16(t, ALG_NULL); b_u16(t, 2048); b_u32(t, 0); b_u16(t, 0); c12_t[c12_nt].heavy = 1; c12_t[c12_nt++].name = "rsa2048-storage"; }
    { Buf *t = &c12_t[c12_nt].pub; b_u16(t, ALG_KEYEDHASH); b_u16(t, ALG_SHA256); b_u32(t, 0x00030472u); b_u16(t, 0); b_u16(t, ALG_XOR); b_u16(t, ALG_SHA256); b_u16(t, 0x0022); b_u16(t, 0); c12_t[c12_nt].heavy = 2; c12_t[c12_nt++].name = "derivation-parent"; }
}
typedef struct { uint32_t h; int hier, t; uint8_t name[70]; int nl; } C12Obj;
static const uint32_t C12_H[4] = { RH_OWNER, RH_ENDORSEMENT, RH_PLATFORM, RH_NULL };

/* CreatePrimary; traces the public area and name returned; keeps the handle in *o (caller flushes) */
static uint32_t c12_primary(Buf *b, int hier, int t, C12Obj *o, const char *why) {
    cmd_begin(b, ST_SESSIONS, CC_CreatePrimary); b_u32(b, C12_H[hier]); auth_pw(b, "", 0); b_u16(b, 4); b_u16(b, 0); b_u16(b, 0); b_2b(b, c12_t[t].pub.p, c12_t[t].pub.n); b_u16(b, 0); b_u32(b, 0);
    Rsp r = run(b);
    tr_begin("primary why=%s hier=%d t=%d rc=%u", why, hier, t, r.rc);
    uint32_t h = 0;
    if (r.rc == 0) { h = g32(r.p + 10); Rd rd = rsp_params(&r, 1); uint16_t pl, l; const uint8_t *pub = r_2b(&rd, &pl); r_2b(&rd, &l); r_2b(&rd, &l); r_u16(&rd); r_u32(&rd); r_2b(&rd, &l); const uint8_t *nm = r_2b(&rd, &l);
        if (!rd.err) { trhex("pub", pub, pl); trhex("name", nm, l); if (o) { o->h = h; o->hier = hier; o->t = t; o->nl = l <= 70 ? l : 0; memcpy(o->name, nm, o->nl); } } }
    tr_end(); return h;
}
static void c12_flush(Buf *b, uint32_t h) { if (h) { cmd_begin(b, ST_NO_SESSIONS, CC_FlushContext); b_u32(b, h); run(b); } }


/* CreateLoaded: on a hierarchy it is CreatePrimary; under a derivation parent the child follows from the parent's secret, label and context alone */
static void c12_createloaded(Buf *b) {
    int hier = rnd(4);
    if (chance(40)) {
        int t = rnd(5);
        cmd_begin(b, ST_SESSIONS, 0x191 /* CreateLoaded */); b_u32(b, C12_H[hier]); auth_pw(b, "", 0); b_u16(b, 4); b_u16(b, 0); b_u16(b, 0); b_2b(b, c12_t[t].pub.p, c12_t[t].pub.n);
        Rsp r = run(b);
        tr_begin("primary why=createloaded hier=%d t=%d rc=%u", hier, t, r.rc);
        if (r.rc == 0) { uint32_t h = g32(r.p + 10); Rd rd = rsp_params(&r, 1); uint16_t l, pl; r_2b(&rd, &l); const uint8_t *pub = r_2b(&rd, &pl); const uint8_t *nm = r_2b(&rd, &l);
            if (!rd.err) { trhex("pub", pub, pl); trhex("name", nm, l); } tr_end(); c12_flush(b, h); } else tr_end();
        return; }
    C12Obj par; uint32_t ph = c12_primary(b, hier, 6, &par, "derivation-parent"); if (!ph) return;
    int v = rnd(3); const char *label = v == 2 ? "L1" : "L0", *ctx = v == 1 ? "C1" : "C0";
    Buf t = {0}; b_u16(&t, ALG_KEYEDHASH); b_u16(&t, ALG_SHA256); b_u32(&t, 0x00040452u); b_u16(&t, 0); b_u16(&t, ALG_HMAC); b_u16(&t, ALG_SHA256); b_2b(&t, label, 2); b_2b(&t, ctx, 2);
    for (int rep = 0; rep < 2; rep++) {
        cmd_begin(b, ST_SESSIONS, 0x191); b_u32(b, ph); auth_pw(b, "", 0); b_u16(b, 4); b_u16(b, 0); b_u16(b, 0); b_2b(b, t.p, t.n);
        Rsp r = run(b);
        tr_begin("primary why=derived hier=%d t=%d rc=%u", hier, 20 + v, r.rc);
        if (r.rc == 0) { uint32_t h = g32(r.p + 10); Rd rd = rsp_params(&r, 1); uint16_t l, pl; r_2b(&rd, &l); const uint8_t *pub = r_2b(&rd, &pl); const uint8_t *nm = r_2b(&rd, &l);
            if (!rd.err) { trhex("pub", pub, pl); trhex("name", nm, l); } tr_end(); c12_flush(b, h); } else tr_end();
        if (chance(60)) break; }
    b_free(&t); c12_flush(b, ph);
}
/* Duplicate + Import: a key leaves parent A for parent B; the imported blob loads under B only and only unmodified */
static void c12_dup_import(Buf *b) {
    C12Obj pa, pb; int ha = rnd(3), hb = (ha + 1 + rnd(2)) % 3;
    uint32_t A = c12_primary(b, ha, 3, &pa, "dup-parent"); if (!A) return;
    uint32_t B = c12_primary(b, hb, 3, &pb, "dup-newparent"); if (!B) { c12_flush(b, A); return; }
    /* duplicable HMAC key whose policy allows TPM2_Duplicate */
    uint8_t pol[32]; { uint8_t in[40]; memset(in, 0, 32); in[32] = 0; in[33] = 0; in[34] = 0x01; in[35] = 0x6C; in[36] = 0; in[37] = 0; in[38] = 0x01; in[39] = 0x4B; unsigned int dl; EVP_Digest(in, 40, pol, &dl, EVP_sha256(), NULL); }
    Buf t = {0}; b_u16(&t, ALG_KEYEDHASH); b_u16(&t, ALG_SHA256); b_u32(&t, 0x00040460u); b_2b(&t, pol, 32); b_u16(&t, ALG_HMAC); b_u16(&t, ALG_SHA256); b_u16(&t, 0);
    cmd_begin(b, ST_SESSIONS, CC_Create); b_u32(b, A); auth_pw(b, "", 0); b_u16(b, 4); b_u16(b, 0); b_u16(b, 0); b_2b(b, t.p, t.n); b_u16(b, 0); b_u32(b, 0); b_free(&t);
    Rsp r = run(b);
    uint8_t priv[600], pub[600], dup[700], seed[300]; uint16_t prl = 0, pul = 0, dl = 0, sl = 0; uint32_t ch = 0, sh = 0;
    if (r.rc == 0) { Rd rd = rsp_params(&r, 0); const uint8_t *x = r_2b(&rd, &prl); const uint8_t *y = r_2b(&rd, &pul); if (rd.err || prl > 600 || pul > 600) prl = 0; else { memcpy(priv, x, prl); memcpy(pub, y, pul); } }
    if (prl) { cmd_begin(b, ST_SESSIONS, CC_Load); b_u32(b, A); auth_pw(b, "", 0); b_2b(b, priv, prl); b_2b(b, pub, pul); r = run(b); if (r.rc == 0) ch = g32(r.p + 10); }
    if (ch) { uint8_t nonce[16] = {0}; cmd_begin(b, ST_NO_SESSIONS, CC_StartAuthSession); b_u32(b, RH_NULL); b_u32(b, RH_NULL); b_2b(b, nonce, 16); b_u16(b, 0); b_u8(b, 1); b_u16(b, ALG_NULL); b_u16(b, ALG_SHA256);
        r = run(b); if (r.rc == 0) sh = g32(r.p + 10); }
    if (sh) { cmd_begin(b, ST_NO_SESSIONS, CC_PolicyCommandCode); b_u32(b, sh); b_u32(b, 0x14B); run(b);
        cmd_begin(b, ST_SESSIONS, 0x14B /* Duplicate */); b_u32(b, ch); b_u32(b, B); b_u32(b, 9); b_u32(b, sh); b_u16(b, 0); b_u8(b, 1); b_u16(b, 0); b_u16(b, 0); b_u16(b, ALG_NULL);
        r = run(b);
        tr("duplicate rc=%u", r.rc);
        if (r.rc == 0) { Rd rd = rsp_params(&r, 0); uint16_t el; r_2b(&rd, &el); const uint8_t *x = r_2b(&rd, &dl); const uint8_t *y = r_2b(&rd, &sl); if (rd.err || dl > 700 || sl > 300) dl = 0; else { memcpy(dup, x, dl); memcpy(seed, y, sl); } } }
    c12_flush(b, ch); c12_flush(b, sh);
    for (int v = 0; v < 5 && dl; v++) {
        uint8_t d2[700], s2[300], p2[600]; memcpy(d2, dup, dl); memcpy(s2, seed, sl); memcpy(p2, pub, pul); uint32_t under = B; const char *what = "intact";
        if (v == 1) { d2[rnd(dl)] ^= 1 << rnd(8); what = "bitflip"; }
        else if (v == 2) { under = A; what = "wrong-parent"; }
        else if (v == 3) { s2[2 + rnd(sl - 2)] ^= 1 << rnd(8); what = "seed-bitflip"; }
        else if (v == 4) { p2[10 + rnd(32)] ^= 1 << rnd(8); what = "public-altered"; }
        cmd_begin(b, ST_SESSIONS, 0x156 /* Import */); b_u32(b, under); auth_pw(b, "", 0); b_u16(b, 0); b_2b(b, p2, pul); b_2b(b, d2, dl); b_2b(b, s2, sl); b_u16(b, ALG_NULL);
        r = run(b);
        tr("import what=%s rc=%u", what, r.rc);
        if (r.rc != 0) continue;
        Rd rd = rsp_params(&r, 0); uint16_t ol; const uint8_t *op = r_2b(&rd, &ol); uint8_t out[700]; if (rd.err || ol > 700) continue; memcpy(out, op, ol);
        /* the imported blob: under the new parent, under the old parent, altered */
        for (int w = 0; w < 3; w++) { uint8_t m[700]; memcpy(m, out, ol); uint32_t par = w == 1 ? A : B; const char *lw = w == 0 ? "intact" : w == 1 ? "imported-under-old-parent" : "imported-bitflip";
            if (v != 0 && w == 0) lw = what;     /* an import that must not have succeeded: whatever it produced must not load either */
            if (w == 2) m[rnd(ol)] ^= 1 << rnd(8);
            cmd_begin(b, ST_SESSIONS, CC_Load); b_u32(b, par); auth_pw(b, "", 0); b_2b(b, m, ol); b_2b(b, p2, pul); Rsp lr = run(b);
            tr_begin("load what=%s rc=%u", lw, lr.rc); trhex("pub", p2, pul); if (lr.rc == 0) { uint16_t nl = g16(lr.p + 18); trhex("name", lr.p + 20, nl); c12_flush(b, g32(lr.p + 10)); } tr_end(); }
    }
    c12_flush(b, A); c12_flush(b, B);
}
static void scen_c12(int histories, int rounds, int thorough) {
    Buf b = {0}; c12_templates();
    for (int hh = 0; hh < histories; hh++) {
        tr("hist %d", hh);
        tpm2_fresh(hh % 2 ? PROFILE_DEFAULT_V1 : NULL); g_tpm2_statics = 1; tpm2_startup(&b, 0);
        int heavy_budget = thorough ? 6 : (hh % 3 == 0 ? 2 : 0);
        uint32_t evict = 0; int evict_t = 0, evict_hier = 0;
        /* scripted: the NULL hierarchy across Shutdown(STATE) + restart + Startup(STATE), with every template kind */
        if (hh % 3 == 0) { int t = heavy_budget ? 5 : 3; if (t == 5) heavy_budget--;
            uint32_t h1 = c12_primary(&b, 3, t, NULL, "null-before"); c12_flush(&b, h1);
            Rsp s = tpm2_shutdown(&b, 1); TPM_RESULT pr = tpm2_powercycle(); Rsp st = tpm2_startup(&b, 1);
            tr("restart kind=%s ret=%u rc=%u", st.rc == 0 && s.rc == 0 ? "resume" : "unknown", pr, st.rc); if (st.rc != 0) tpm2_startup(&b, 0);
            uint32_t h2 = c12_primary(&b, 3, t, NULL, "null-after"); c12_flush(&b, h2); }
        for (int i = 0; i < rounds; i++) {
            int op = rnd(100);
            if (op < 45) { int t = rnd(c12_nt); if (c12_t[t].heavy == 2) t = rnd(5); if (c12_t[t].heavy) { if (!heavy_budget) t = rnd(5); else heavy_budget--; }
                uint32_t h = c12_primary(&b, rnd(4), t, NULL, "random"); c12_flush(&b, h); }
            else if (op < 60) { /* restart of every kind */
                int sd = rnd(3); Rsp s = {0}; if (sd) s = tpm2_shutdown(&b, sd == 2 ? 1 : 0);
                uint16_t ord = verif_get_orderlyState(); TPM_RESULT pr = tpm2_powercycle(); int st = chance(50);
                Rsp r = tpm2_startup(&b, st); if (r.rc != 0) { st = 0; r = tpm2_startup(&b, 0); }
                const char *kind = (ord & 0xF) == 1 && ord < 0xFFFE ? (st ? "resume" : "restart") : "reset";
                tr("restart kind=%s ret=%u rc=%u", kind, pr, r.rc); }
            else if (op < 66) { TPM_RESULT r = tpm2_suspend_resume(NULL, NULL); tr("suspendresume ret=%u", r); }
            else if (op < 71) { cmd_begin(&b, ST_SESSIONS, CC_Clear); b_u32(&b, RH_PLATFORM); auth_pw(&b, "", 0); Rsp r = run(&b); tr("clear rc=%u", r.rc); }
            else if (op < 74) { cmd_begin(&b, ST_SESSIONS, 0x124 /* ChangeEPS */); b_u32(&b, RH_PLATFORM); auth_pw(&b, "", 0); Rsp r = run(&b); tr("changeeps rc=%u", r.rc); }
            else if (op < 77) { cmd_begin(&b, ST_SESSIONS, 0x125 /* ChangePPS */); b_u32(&b, RH_PLATFORM); auth_pw(&b, "", 0); Rsp r = run(&b); tr("changepps rc=%u", r.rc); }
            else if (op < 87) { /* a child under a storage parent: loads under its parent only, and only unmodified */
                C12Obj par, other; uint32_t ph = c12_primary(&b, rnd(3), 3, &par, "parent"); if (!ph) continue;
                cmd_begin(&b, ST_SESSIONS, CC_Create); b_u32(&b, ph); auth_pw(&b, "", 0); b_u16(&b, 4); b_u16(&b, 0); b_u16(&b, 0); b_2b(&b, c12_t[0].pub.p, c12_t[0].pub.n); b_u16(&b, 0); b_u32(&b, 0);
                Rsp r = run(&b);
                if (r.rc == 0) { Rd rd = rsp_params(&r, 0); uint16_t prl, pul; const uint8_t *pr0 = r_2b(&rd, &prl); const uint8_t *pu0 = r_2b(&rd, &pul);
                    uint8_t priv[600], pub[600]; if (rd.err || prl > 600 || pul > 600) { c12_flush(&b, ph); continue; } memcpy(priv, pr0, prl); memcpy(pub, pu0, pul);
                    for (int v = 0; v < 7; v++) { uint8_t m[640]; int ml = prl; memcpy(m, priv, prl); uint32_t under = ph; uint32_t oh = 0; char what[32];
                        switch (v) {
                        case 0: strcpy(what, "intact"); break;
                        case 1: m[rnd(ml)] ^= 1 << rnd(8); strcpy(what, "bitflip"); break;
                        case 2: ml = 2 + rnd(ml - 2); strcpy(what, "truncated"); break;
                        case 3: { /* integrity TPM2B emptied or shortened, bytes shifted so the total length stays */
                            int il = g16(m); int keep = chance(50) ? 0 : rnd(il); m[0] = 0; m[1] = keep; memmove(m + 2 + keep, m + 2 + il, ml - 2 - il); for (int q = ml - (il - keep); q < ml; q++) m[q] = rnd(256); strcpy(what, "short-integrity"); break; }
                        case 4: { /* the same with the rest re-aligned: [0000][0010 any16][any16][IV][ENC] */
                            int il = g16(m); if (il == 32 && ml > 2 + 32 + 2 + 16) { uint8_t n2[640]; int o2 = 0; n2[o2++] = 0; n2[o2++] = 0; n2[o2++] = 0; n2[o2++] = 16; for (int q = 0; q < 32; q++) n2[o2++] = rnd(256);
                                memcpy(n2 + o2, m + 2 + 32 + 2, ml - 36); o2 += ml - 36; memcpy(m, n2, o2); ml = o2; }
                            strcpy(what, "empty-integrity-realigned"); break; }
                        case 5: oh = c12_primary(&b, par.hier, 4, &other, "other-parent"); if (!oh) { oh = c12_primary(&b, (par.hier + 1) % 3, 3, &other, "other-parent"); } under = oh ? (other.t == 3 ? oh : ph) : ph; strcpy(what, other.t == 3 && oh ? "other-parent" : "intact"); break;
                        default: m[ml - 1] ^= 1; strcpy(what, "last-byte"); break; }
                        cmd_begin(&b, ST_SESSIONS, CC_Load); b_u32(&b, under); auth_pw(&b, "", 0); b_2b(&b, m, ml); b_2b(&b, pub, pul); Rsp lr = run(&b);
                        tr_begin("load what=%s rc=%u", what, lr.rc); trhex("pub", pub, pul); if (lr.rc == 0) { uint16_t nl = g16(lr.p + 18); trhex("name", lr.p + 20, nl); c12_flush(&b, g32(lr.p + 10)); } tr_end();
                        c12_flush(&b, oh); } }
                c12_flush(&b, ph); }
            else if (op < 91) { /* persistent object */
                if (!evict) { C12Obj o; int hier = rnd(2) * 2; uint32_t h = c12_primary(&b, hier, rnd(5), &o, "to-evict"); if (!h) continue;
                    uint32_t ph = hier == 2 ? 0x81800001u : 0x81000001u;
                    cmd_begin(&b, ST_SESSIONS, CC_EvictControl); b_u32(&b, hier == 2 ? RH_PLATFORM : RH_OWNER); b_u32(&b, h); auth_pw(&b, "", 0); b_u32(&b, ph); Rsp r = run(&b);
                    tr_begin("evict on=1 hier=%d handle=%u rc=%u", hier, ph, r.rc); trhex("name", o.name, o.nl); tr_end(); if (r.rc == 0) { evict = ph; evict_hier = hier; evict_t = o.t; } c12_flush(&b, h); }
                else if (chance(40)) { cmd_begin(&b, ST_SESSIONS, CC_EvictControl); b_u32(&b, evict_hier == 2 ? RH_PLATFORM : RH_OWNER); b_u32(&b, evict); auth_pw(&b, "", 0); b_u32(&b, evict); Rsp r = run(&b);
                    tr("evict on=0 hier=%d handle=%u rc=%u", evict_hier, evict, r.rc); if (r.rc == 0) evict = 0; }
                (void)evict_t; }
            else if (op < 93) c12_dup_import(&b);
            else if (op < 96) c12_createloaded(&b);
            else if (op < 98) { /* every transient slot is reclaimable */
                uint32_t hs[16]; int n = 0; for (; n < 16; n++) { hs[n] = c12_primary(&b, 0, 0, NULL, "fill"); if (!hs[n]) break; }
                for (int q = 0; q < n; q++) c12_flush(&b, hs[q]);
                int n2 = 0; for (; n2 < 16; n2++) { hs[n2] = c12_primary(&b, 0, 2, NULL, "refill"); if (!hs[n2]) break; }
                for (int q = 0; q < n2; q++) c12_flush(&b, hs[q]);
                tr("slots first=%d second=%d", n, n2); }
            /* the persistent object after whatever happened */
            if (evict || chance(10)) { uint32_t ph = evict ? evict : 0x81000001u; cmd_begin(&b, ST_NO_SESSIONS, CC_ReadPublic); b_u32(&b, ph); Rsp r = run(&b);
                tr_begin("evictcheck handle=%u rc=%u", ph, r.rc); if (r.rc == 0) { uint16_t pl = g16(r.p + 10); uint16_t nl = g16(r.p + 12 + pl); trhex("name", r.p + 14 + pl, nl); } tr_end();
                if (r.rc != 0) evict = 0; }
        }
    }
    b_free(&b);
}
