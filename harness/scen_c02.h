/* C02: suspend/resume through the state blobs preserves the TPM exactly (twin-run oracle) */
static void c02_world_copy(World *dst, const World *src) {
    *dst = *src;
    for (int i = 0; i < src->nctx; i++) { dst->ctx[i].p = malloc(src->ctx[i].n); memcpy(dst->ctx[i].p, src->ctx[i].p, src->ctx[i].n); }
}
static void c02_world_free(World *w) { for (int i = 0; i < w->nctx; i++) free(w->ctx[i].p); w->nctx = 0; }

/* the continuation K: fingerprint battery, a few more random commands, use of everything alive, battery again */
static int g_c02_end_restart, g_c02_startup_loc;
static void c02_continuation(World *w, Buf *b, int nops, uint8_t out[32]) {
    g_resp_md = EVP_MD_CTX_new(); EVP_DigestInit_ex(g_resp_md, EVP_sha256(), NULL); g_resp_count = 0;
    uint8_t d[32];
    battery(w, b, 0, d);
    cmd_begin(b, ST_NO_SESSIONS, CC_ReadClock); run(b);
    cmd_begin(b, ST_NO_SESSIONS, CC_GetRandom); b_u16(b, 16); run(b);
    for (int i = 0; i < nops; i++) gen_op(w, b);
    /* use every live session / sequence / key once; a PCR changes in between, so sessions that recorded a PCR generation notice */
    cmd_begin(b, ST_SESSIONS, CC_PCR_Extend); b_u32(b, 10); auth_pw_s(b, ""); b_u32(b, 1); b_u16(b, ALG_SHA256); for (int q = 0; q < 32; q++) b_u8(b, 0x5a); run(b);
    for (int i = 0; i < w->nsess; i++) if (w->sess[i].policy) {
        cmd_begin(b, ST_NO_SESSIONS, CC_PolicyPCR); b_u32(b, w->sess[i].h); b_u16(b, 0); b_u32(b, 1); b_u16(b, ALG_SHA256); b_u8(b, 3); b_u8(b, 0); b_u8(b, 4); b_u8(b, 0); run(b);
        cmd_begin(b, ST_NO_SESSIONS, CC_PolicyGetDigest); b_u32(b, w->sess[i].h); run(b); }
    for (int i = 0; i < w->nseq; i++) { cmd_begin(b, ST_SESSIONS, CC_SequenceUpdate); b_u32(b, w->seq[i].h); auth_pw_s(b, ""); b_2b(b, "tail", 4); run(b); }
    for (int i = 0; i < w->nctx; i++) { cmd_begin(b, ST_NO_SESSIONS, CC_ContextLoad); b_bytes(b, w->ctx[i].p, w->ctx[i].n); Rsp r = run(b);
        if (r.rc == 0 && r.len >= 14) { cmd_begin(b, ST_NO_SESSIONS, CC_FlushContext); b_u32(b, g32(r.p + 10)); run(b); } }
    c02_world_free(w);   /* contexts were consumed (loaded+flushed or refused) */
    battery(w, b, 0, d);
    cmd_begin(b, ST_NO_SESSIONS, CC_ReadClock); run(b);
    /* C02 ends the continuation with Shutdown(STATE), a power cycle and Startup(STATE) from the locality the history started at:
       what the TPM remembers about its Startup (the locality-3 indicator) decides whether that Startup is accepted */
    if (g_c02_end_restart) { int loc = g_locality; g_locality = g_c02_startup_loc;
        Rsp s = tpm2_shutdown(b, 1); if (s.rc == 0) { tpm2_powercycle(); tpm2_startup(b, 1); cmd_begin(b, ST_NO_SESSIONS, CC_PCR_Read); b_u32(b, 1); b_u16(b, ALG_SHA256); b_u8(b, 3); b_u8(b, 1); b_u8(b, 0); b_u8(b, 0); run(b); }
        g_locality = loc; }
    unsigned l = 32; EVP_DigestFinal_ex(g_resp_md, out, &l); EVP_MD_CTX_free(g_resp_md); g_resp_md = NULL;
}

static void c02_trace_blob(const char *kind, const uint8_t *p, uint32_t n) {
    tr_begin("blob kind=%s len=%u", kind, n); trhex("head", p, n < 16 ? n : 16); trhex("tail", p + (n < 8 ? 0 : n - 8), n < 8 ? n : 8);
    if (!strcmp(kind, "perm")) { long o = find_magic(p, n, 0, 0x56657887); if (o >= 2) trhex("orderly", p + o - 2, (uint32_t)o + 60 < n ? 62 : 0); }
    tr_end();
}

/* one twin check at the current point of the history */
static void c02_twin(World *w, Buf *b, int pos, int variant) {
    unsigned char *pb = NULL, *vb = NULL, *pb2 = NULL, *vb2 = NULL; uint32_t pl = 0, vl = 0, pl2 = 0, vl2 = 0;
    TPM_RESULT r1 = TPMLIB_GetState(TPMLIB_STATE_PERMANENT, &pb, &pl), r2 = TPMLIB_GetState(TPMLIB_STATE_VOLATILE, &vb, &vl);
    TPM_RESULT r1b = TPMLIB_GetState(TPMLIB_STATE_PERMANENT, &pb2, &pl2), r2b = TPMLIB_GetState(TPMLIB_STATE_VOLATILE, &vb2, &vl2);
    int again_equal = (r1 | r2 | r1b | r2b) == 0 && pl == pl2 && vl == vl2 && !memcmp(pb, pb2, pl) && !memcmp(vb, vb2, vl);
    free(pb2); free(vb2);
    if ((r1 | r2) != 0) { tr("twin pos=%d variant=%d getstate=%u/%u", pos, variant, r1, r2); free(pb); free(vb); return; }
    c02_trace_blob("perm", pb, pl); c02_trace_blob("vol", vb, vl);
    /* snapshot of everything outside the TPM */
    Blob st[3] = {{0}}; for (int i = 0; i < 3; i++) if (g_store[i].present) blob_set(&st[i], g_store[i].p, g_store[i].n);
    uint64_t dt = variant == 0 ? 0 : (1 + rnd(100000)) * 1000000ULL;
    uint64_t mono = g_mono_ns, real = g_real_ns, rng = g_rng, ent = g_ent;
    World w1; c02_world_copy(&w1, w);
    /* run 1: the uninterrupted TPM (host time moves on by dt first) */
    g_mono_ns += dt; g_real_ns += dt;
    uint8_t d1[32], d2[32]; long n1, n2;
    c02_continuation(&w1, b, 6, d1); n1 = g_resp_count;
    static uint32_t log1[RESP_LOG_MAX][3]; memcpy(log1, g_resp_log, sizeof log1);
    /* run 2: terminate, re-create from the blobs on a host whose clocks are: same / later / rebooted */
    TPMLIB_Terminate();
    for (int i = 0; i < 3; i++) { if (st[i].present) blob_set(&g_store[i], st[i].p, st[i].n); else blob_clear(&g_store[i]); blob_clear(&st[i]); }
    g_rng = rng; g_ent = ent; g_real_ns = real + dt;
    g_mono_ns = variant == 2 ? (1 + (mono / 1000000ULL) % 5000) * 1000000ULL : mono + dt;
    TPM_RESULT s1 = TPMLIB_SetState(TPMLIB_STATE_PERMANENT, pb, pl), s2 = TPMLIB_SetState(TPMLIB_STATE_VOLATILE, vb, vl);
    TPM_RESULT mi = TPMLIB_MainInit();
    g_ent = ent;     /* the entropy source is environment: both runs of K see the same stream */
    int blobs_equal = -1;
    if ((s1 | s2 | mi) == 0) {
        unsigned char *pb3 = NULL, *vb3 = NULL; uint32_t pl3 = 0, vl3 = 0;
        TPMLIB_GetState(TPMLIB_STATE_PERMANENT, &pb3, &pl3); TPMLIB_GetState(TPMLIB_STATE_VOLATILE, &vb3, &vl3);
        /* the volatile blob carries host-clock anchors (realtime at save, monotonic+adjust): compare it only when the host clocks are the same */
        blobs_equal = pl == pl3 && !memcmp(pb, pb3, pl) && (variant != 0 || (vl == vl3 && !memcmp(vb, vb3, vl)));
        if (!blobs_equal) {
            long dp = -1, dv = -1;
            for (uint32_t i = 0; i < pl && i < pl3; i++) if (pb[i] != pb3[i]) { dp = i; break; }
            for (uint32_t i = 0; i < vl && i < vl3; i++) if (vb[i] != vb3[i]) { dv = i; break; }
            tr_begin("blobdiff perm_len=%u/%u perm_first=%ld vol_len=%u/%u vol_first=%ld", pl, pl3, dp, vl, vl3, dv);
            if (dv >= 0) { long s0 = dv > 64 ? dv - 64 : 0; trhex("a", vb + s0, 96); trhex("b", vb3 + s0, 96); }
            tr_end();
        }
        free(pb3); free(vb3);
        World w2; c02_world_copy(&w2, w);
        c02_continuation(&w2, b, 6, d2); n2 = g_resp_count;
        /* the history goes on from the resumed TPM with the client view after K */
        c02_world_free(w); *w = w2;
    } else { memset(d2, 0, 32); n2 = -1; }
    long fd = -1;
    if (n2 >= 0 && memcmp(d1, d2, 32)) for (long i = 0; i < RESP_LOG_MAX && i < (n1 < n2 ? n2 : n1); i++) if (memcmp(log1[i], g_resp_log[i], 12)) { fd = i; break; }
    tr_begin("twin pos=%d variant=%d setstate=%u/%u maininit=%u again_equal=%d blobs_equal=%d cont_equal=%d n1=%ld n2=%ld", pos, variant, s1, s2, mi, again_equal, blobs_equal,
             n2 >= 0 && !memcmp(d1, d2, 32), n1, n2);
    if (fd >= 0) fprintf(g_tr, " first_diff=%ld cc1=%x rc1=%u cc2=%x rc2=%u", fd, log1[fd][0], log1[fd][1], g_resp_log[fd][0], g_resp_log[fd][1]);
    trhex("d1", d1, 8); trhex("d2", d2, 8); tr_end();
    free(pb); free(vb);
}

static void scen_c02(int histories, int maxops, int every) {
    g_tpm2_statics = 1;   /* a resume or power cycle starts from the load-time image of the library's globals, as in a new process */
    Buf b = {0}; World w; memset(&w, 0, sizeof w);
    for (int h = 0; h < histories; h++) {
        tr("hist %d", h);
        w_reset(&w);
        g_mono_ns = (1 + rnd(100000)) * 1000000ULL; g_real_ns = 1700000000000000000ULL;
        const char *prof = h % 3 == 0 ? NULL : (h % 3 == 1 ? PROFILE_DEFAULT_V1 : PROFILE_CUSTOM);
        g_c02_startup_loc = h % 4 == 2 ? 3 : 0;   /* one history in four is started from locality 3 */
        tpm2_fresh(prof); g_locality = g_c02_startup_loc; tpm2_startup(&b, 0); g_locality = 0; g_c02_end_restart = 1;
        tr("fresh profile=%d", h % 3);
        int n = 8 + rnd(maxops);
        for (int i = 0; i < n; i++) {
            if (chance(30)) clock_advance_ms(rnd(20000));
            gen_op(&w, &b);
            tr("op cc=%x rc=%u", w.last_cc, w.last_rc);
            if (every || chance(25)) c02_twin(&w, &b, i, rnd(3));
        }
        c02_twin(&w, &b, n, 0);
        c02_twin(&w, &b, n + 1, 1 + rnd(2));   /* repeated suspend */
    }
    g_c02_end_restart = 0; g_c02_startup_loc = 0;
    w_reset(&w); b_free(&b);
}
