/* C06: any byte string offered as TPM 2 state is rejected or accepted safely */
static long c06_n, c06_acc, c06_rej;

static uint32_t c06_failcc;   /* the command of the workout that was answered TPM_RC_FAILURE */
static Rsp c06_run(Buf *b) { Rsp r = run(b); if (r.rc == RC_FAILURE && !c06_failcc) c06_failcc = g32(b->p + 6); return r; }
static int c06_alive_(Buf *b);
/* 1 = works, 2 = in failure mode, 3 = in failure mode because a counter the blob carries stood at its last value (the PCR update
   counter overflows at the PCR reset of Startup: FATAL_ERROR_COUNTER_OVERFLOW is what the TPM is meant to do then), 0 = no answer */
static int c06_alive(Buf *b) { int a = c06_alive_(b); return a == 2 && s_failCode == 12 /* FATAL_ERROR_COUNTER_OVERFLOW */ ? 3 : a; }
static int c06_alive_(Buf *b) {   /* does the running TPM answer commands? */
    c06_failcc = 0;
    Rsp r = tpm2_startup(b, 0);
    if (r.len < 10) return 0;
    cmd_begin(b, ST_NO_SESSIONS, CC_GetCapability); b_u32(b, 6); b_u32(b, 0x100); b_u32(b, 4); Rsp c = c06_run(b);
    if (!(c.len >= 10 && c.rc == 0)) return c.len >= 10 && c.rc == RC_FAILURE ? 2 : 0;
    /* a short workout through the parts of the state a blob carries: session slots and context counters, an object slot, the
       hash machinery, NV space — an accepted blob must give a TPM that does all of this without falling into failure mode */
    { uint8_t nonce[16] = {0}; cmd_begin(b, ST_NO_SESSIONS, CC_StartAuthSession); b_u32(b, RH_NULL); b_u32(b, RH_NULL); b_2b(b, nonce, 16); b_u16(b, 0); b_u8(b, 0); b_u16(b, ALG_NULL); b_u16(b, ALG_SHA256);
      Rsp s = c06_run(b); if (s.rc == RC_FAILURE) return 2;
      if (s.rc == 0 && s.len >= 14) { uint32_t sh = g32(s.p + 10);
          cmd_begin(b, ST_NO_SESSIONS, CC_ContextSave); b_u32(b, sh); Rsp cs = c06_run(b); if (cs.rc == RC_FAILURE) return 2;
          if (cs.rc == 0 && cs.len > 10) { uint8_t *ctx = malloc(cs.len); uint32_t cn = cs.len - 10; memcpy(ctx, cs.p + 10, cn);
              cmd_begin(b, ST_NO_SESSIONS, CC_ContextLoad); b_bytes(b, ctx, cn); Rsp cl = c06_run(b); free(ctx); if (cl.rc == RC_FAILURE) return 2; }
          cmd_begin(b, ST_NO_SESSIONS, CC_FlushContext); b_u32(b, sh); if (c06_run(b).rc == RC_FAILURE) return 2; } }
    { Buf t = {0}; tmpl_keyedhash(&t, NULL, 0);
      cmd_begin(b, ST_SESSIONS, CC_CreatePrimary); b_u32(b, RH_NULL); auth_pw(b, "", 0); b_u16(b, 4); b_u16(b, 0); b_u16(b, 0); b_2b(b, t.p, t.n); b_u16(b, 0); b_u32(b, 0); Rsp k = c06_run(b); b_free(&t);
      if (k.rc == RC_FAILURE) return 2;
      if (k.rc == 0 && k.len >= 14) { uint32_t kh = g32(k.p + 10);
          cmd_begin(b, ST_SESSIONS, CC_HMAC); b_u32(b, kh); auth_pw(b, "", 0); b_2b(b, "alive", 5); b_u16(b, ALG_SHA256); if (c06_run(b).rc == RC_FAILURE) return 2;
          cmd_begin(b, ST_NO_SESSIONS, CC_ContextSave); b_u32(b, kh); if (c06_run(b).rc == RC_FAILURE) return 2;
          cmd_begin(b, ST_NO_SESSIONS, CC_FlushContext); b_u32(b, kh); if (c06_run(b).rc == RC_FAILURE) return 2; } }
    cmd_begin(b, ST_NO_SESSIONS, CC_PCR_Read); b_u32(b, 1); b_u16(b, ALG_SHA256); b_u8(b, 3); b_u8(b, 1); b_u8(b, 0); b_u8(b, 1); if (c06_run(b).rc == RC_FAILURE) return 2;
    cmd_begin(b, ST_NO_SESSIONS, CC_ReadClock); if (c06_run(b).rc == RC_FAILURE) return 2;
    cmd_begin(b, ST_NO_SESSIONS, CC_GetCapability); b_u32(b, 1); b_u32(b, 0x01000000u); b_u32(b, 8); if (c06_run(b).rc == RC_FAILURE) return 2;
    return 1;
}
/* one mutated blob through the three doors. kind: 0 perm, 1 vol. good blobs given for the other type. */
static void c06_try(Buf *b, int kind, const uint8_t *m, uint32_t mn, const Blob *gperm, const Blob *gvol, const char *desc) {
    c06_n++;
    tr_begin("mut n=%ld kind=%s desc=%s len=%u", c06_n, kind ? "vol" : "perm", desc, mn); trhex("head", m, mn < 8 ? mn : 8); tr_end(); fflush(g_tr);
    /* door 1: TPMLIB_SetState */
    TPMLIB_Terminate(); storage_reset();
    TPM_RESULT s0 = 0, s1;
    if (kind == 1) s0 = TPMLIB_SetState(TPMLIB_STATE_PERMANENT, gperm->p, gperm->n);
    s1 = TPMLIB_SetState(kind ? TPMLIB_STATE_VOLATILE : TPMLIB_STATE_PERMANENT, m, mn);
    int blob_says_failure = s1 == 0 && kind == 1 && g_inFailureMode;   /* SetState has taken the blob in: it carries g_inFailureMode (and the description of the failure) */
    /* after a rejection nothing may stay cached */
    unsigned char *cp = NULL; uint32_t cl = 0; TPM_RESULT g1 = TPMLIB_GetState(TPMLIB_STATE_PERMANENT, &cp, &cl);
    int cached = (g1 == 0 && cp != NULL && cl != 0 && cl != 0xFFFFFFFFu); free(cp);
    TPM_RESULT mi = TPMLIB_MainInit();
    /* a TPM that comes up in failure mode: either the blob said so (it carries g_inFailureMode and the description of the failure;
       SetState / ValidateState had already put it into the globals) or something failed while the TPM was started from it */
    int mi_blobfail = mi != 0 && g_inFailureMode && blob_says_failure;
    int alive = mi == 0 ? c06_alive(b) : -1;
    int manufactured = TPMLIB_WasManufactured();
    tr("door1 n=%ld prev=%u setstate=%u cached_after=%d maininit=%u alive=%d manufactured=%d failcc=%x failfn=%08x failline=%u blobfail=%d", c06_n, s0, s1, cached, mi, alive, manufactured, alive == 2 ? c06_failcc : 0, alive == 2 ? s_failFunction : 0, alive == 2 ? s_failLine : 0, mi_blobfail);
    if (s1 == 0) c06_acc++; else c06_rej++;
    /* door 2: the load callback (ValidateState then MainInit) */
    TPMLIB_Terminate(); storage_reset();
    if (kind == 0) blob_set(&g_store[ST_PERM], m, mn);
    else { blob_set(&g_store[ST_PERM], gperm->p, gperm->n); blob_set(&g_store[ST_VOL], m, mn); }
    TPM_RESULT v = TPMLIB_ValidateState(kind ? (TPMLIB_STATE_PERMANENT | TPMLIB_STATE_VOLATILE) : TPMLIB_STATE_PERMANENT, 0);
    int blob_says_failure2 = v == 0 && kind == 1 && g_inFailureMode;
    TPM_RESULT mi2 = TPMLIB_MainInit();
    int infail = g_inFailureMode; int mi2_blobfail = mi2 != 0 && g_inFailureMode && blob_says_failure2;
    int alive2 = mi2 == 0 ? c06_alive(b) : -1;
    tr("door2 n=%ld validate=%u maininit=%u infail=%d alive=%d blobfail=%d", c06_n, v, mi2, infail, alive2, mi2_blobfail);
    /* afterwards a TPM can still be started normally */
    TPMLIB_Terminate(); storage_reset();
    TPM_RESULT mi3 = TPMLIB_MainInit(); int alive3 = mi3 == 0 ? c06_alive(b) : -1;
    if (mi3 != 0 || alive3 != 1) tr("normalstart n=%ld maininit=%u alive=%d", c06_n, mi3, alive3);
    (void)gvol;
}
static void c06_mutations(Buf *b, int kind, const Blob *target, const Blob *gperm, const Blob *gvol, int budget) {
    uint8_t *m = malloc(target->n + 1400); char desc[64];
    static const uint16_t BV[] = {0, 1, 2, 0x7f, 0x80, 0xff, 0x100, 0x7fff, 0x8000, 0xfffe, 0xffff};
    for (int i = 0; i < budget; i++) {
        memcpy(m, target->p, target->n); uint32_t mn = target->n;
        switch (rnd(11)) {
        case 0: mn = rnd(mn); snprintf(desc, sizeof desc, "trunc@%u", mn); break;
        case 1: { uint32_t o = rnd(mn); m[o] ^= 1 << rnd(8); snprintf(desc, sizeof desc, "bit@%u", o); break; }
        case 2: case 3: { uint32_t o = rnd(mn - 1); uint16_t v = BV[rnd(11)]; m[o] = v >> 8; m[o + 1] = v; snprintf(desc, sizeof desc, "u16@%u=%u", o, v); break; }
        case 4: { /* a u16 near the end (the trailing skip blocks and magic) */
            uint32_t o = mn - 2 - rnd(mn < 40 ? mn - 2 : 38); uint16_t v = BV[rnd(11)]; m[o] = v >> 8; m[o + 1] = v; snprintf(desc, sizeof desc, "tail-u16@%u=%u", o, v); break; }
        case 5: { /* header fields of a structure found by its magic: version / min_version */
            uint32_t o = rnd(mn - 8); long f = -1;
            static const uint32_t mg[] = {0xab364723, 0x12213443, 0x56657887, 0x5346feab, 0x094f22c3, 0x45637889, 0x01102332, 0x98897667, 0xfe9a3974, 0x44be9f45, 0x3664aebc, 0xe95f0387, 0xc9ea6431};
            f = find_magic(m, mn, o, mg[rnd(13)]); if (f < 2) f = find_magic(m, mn, 0, mg[rnd(13)]);
            if (f >= 2) { int w = rnd(3); uint16_t v = BV[rnd(11)]; uint32_t p = w == 0 ? (uint32_t)f - 2 : (w == 1 ? (uint32_t)f + 4 : (uint32_t)f + (uint32_t)rnd(4)); if (p + 2 <= mn) { m[p] = v >> 8; m[p + 1] = v; } snprintf(desc, sizeof desc, "hdr@%ld.%d=%u", f, w, v); }
            else snprintf(desc, sizeof desc, "hdr-none");
            break; }
        case 10: { /* the outermost header: version, magic, min_version — next to what this implementation writes and far from it */
            int w = rnd(3); uint16_t cur = (uint16_t)((m[0] << 8) | m[1]);
            uint16_t v = (uint16_t[]){0, 1, 2, cur, (uint16_t)(cur + 1), (uint16_t)(cur - 1), 0x7fff, 0xffff}[rnd(8)];
            uint32_t p = w == 0 ? 0 : w == 1 ? 2 + 2 * rnd(2) : 6;
            if (w == 1) v = (uint16_t)(((m[p] << 8) | m[p + 1]) ^ (1u << rnd(16)));
            if (p + 2 <= mn) { m[p] = v >> 8; m[p + 1] = v; }
            snprintf(desc, sizeof desc, "outer-%s=%u", w == 0 ? "version" : w == 1 ? "magic" : "minversion", v); break; }
        case 6: { /* splice: tail of the blob replaced by bytes from elsewhere */
            uint32_t o = rnd(mn), src = rnd(mn), len = rnd(64); for (uint32_t k = 0; k < len && o + k < mn && src + k < mn; k++) m[o + k] = target->p[src + k]; snprintf(desc, sizeof desc, "splice@%u<-%u", o, src); break; }
        case 7: { /* over-long */ uint32_t add = 1 + rnd(32); for (uint32_t k = 0; k < add; k++) m[mn + k] = rnd(256); mn += add; snprintf(desc, sizeof desc, "extend+%u", add); break; }
        case 8: { /* structure-aware: an orderly-RAM entry (inserted when the image has none) whose data size lies in the
                     window around "fits exactly": size fields consistent, enough bytes present */
            long f = kind == 0 ? find_magic(m, mn, 0, 0x5346feab) : -1;
            if (f < 2 || (uint32_t)f + 14 > mn) { snprintf(desc, sizeof desc, "oram-none"); break; }
            uint32_t p = (uint32_t)f - 2, asz = g32(m + p + 8), e = p + 12, used = 0;
            /* walk the existing entries */
            while (e + 4 <= mn && g32(m + e) != 0 && used + g32(m + e) <= asz && e + 14 + (g32(m + e) - 12) <= mn) { used += g32(m + e); e += 14 + (g32(m + e) - 12); }
            if (e + 4 > mn || asz < used + 12) { snprintf(desc, sizeof desc, "oram-full"); break; }
            int room = (int)asz - (int)used - 12, ds = room - 3 + (int)rnd(20); if (ds < 0) ds = room; if (ds > 1300) ds = 1300;
            uint32_t ins = 14 + (uint32_t)ds;
            memmove(m + e + ins, m + e, mn - e); mn += ins;
            uint32_t q = e; uint32_t sz = 12 + (uint32_t)ds;
            m[q] = sz >> 24; m[q+1] = sz >> 16; m[q+2] = sz >> 8; m[q+3] = sz; m[q+4] = 0x01; m[q+5] = 0x50; m[q+6] = 0; m[q+7] = 0x77;
            uint32_t at = 0x0402000A | (1u << 26); m[q+8] = at >> 24; m[q+9] = at >> 16; m[q+10] = at >> 8; m[q+11] = at; m[q+12] = ds >> 8; m[q+13] = ds;
            for (int k = 0; k < ds; k++) m[q + 14 + k] = rnd(256);
            snprintf(desc, sizeof desc, "oram-entry@%u ds=%d room=%d", e, ds, room); break; }
        default: { uint32_t o = rnd(mn), len = 1 + rnd(8); for (uint32_t k = 0; k < len && o + k < mn; k++) m[o + k] = rnd(256); snprintf(desc, sizeof desc, "rand@%u+%u", o, len); break; }
        }
        /* the volatile blob ends in SHA-1(everything before): with the trailer left stale every altered blob is refused at the
           very end (the parser has run by then); with it recomputed the altered content is what decides */
        if (kind == 1 && mn > 20 && chance(60)) { SHA1(m, mn - 20, m + mn - 20); strncat(desc, "+sum", sizeof desc - strlen(desc) - 1); }
        uint8_t *exact = malloc(mn ? mn : 1); memcpy(exact, m, mn);      /* exact-size copy: ASan sees reads past the end */
        c06_try(b, kind, exact, mn, gperm, gvol, desc);
        free(exact);
    }
    free(m);
}
static void scen_c06(int bases, int prefix_ops, int budget) {
    g_gen_host_rng_ok = 1;
    Buf b = {0}; World w; memset(&w, 0, sizeof w);
    for (int h = 0; h < bases; h++) {
        tr("hist %d", h); w_reset(&w);
        tpm2_fresh(h % 3 == 0 ? NULL : (h % 3 == 1 ? PROFILE_DEFAULT_V1 : PROFILE_CUSTOM)); tpm2_startup(&b, 0);
        for (int i = 0; i < prefix_ops; i++) gen_op(&w, &b);
        /* a CMAC sequence in flight: its cipher state travels in the volatile blob (state version added by fix 9dbaf1f) */
        if (h % 3 != 2) { while (w.nobj + w.nseq >= 3 && w.nobj) op_flush_object(&w, &b);
            uint8_t uq[2] = {1, 2}; Rsp r = w_create_primary(&w, &b, RH_NULL, 4, uq, 2, "");
            if (r.rc == 0 && r.len >= 14) { uint32_t kh = g32(r.p + 10);
                cmd_begin(&b, ST_SESSIONS, 0x15B /* MAC_Start */); b_u32(&b, kh); auth_pw(&b, "", 0); b_u16(&b, 0); b_u16(&b, ALG_NULL); Rsp ms = run(&b);
                if (ms.rc == 0) { cmd_begin(&b, ST_SESSIONS, CC_SequenceUpdate); b_u32(&b, g32(ms.p + 10)); auth_pw(&b, "", 0); b_2b(&b, "0123456789abcdefXYZ", 19); run(&b); }
                cmd_begin(&b, ST_NO_SESSIONS, CC_FlushContext); b_u32(&b, kh); run(&b); } }
        if (h % 2) { tpm2_shutdown(&b, 1); }          /* Shutdown(STATE) data in the blob */
        Blob perm = {0}, vol = {0}; unsigned char *p = NULL; uint32_t n = 0;
        if (TPMLIB_GetState(TPMLIB_STATE_PERMANENT, &p, &n)) die("C06 getstate"); blob_set(&perm, p, n); free(p); p = NULL;
        if (TPMLIB_GetState(TPMLIB_STATE_VOLATILE, &p, &n)) die("C06 getstate"); blob_set(&vol, p, n); free(p);
        /* fields the harness can locate: the context slot mask (a value the unmarshal code restricts to two legal ones) is found by
           taking the volatile blob of the running TPM with each of the two legal values; other bytes differ too (the clock): the field
           is where ff ff stands against 00 ff. Every other value must be refused, and what is accepted must work. */
        long slot_at = -1;
        { unsigned m0 = verif_get_slotmask(); unsigned char *q1 = NULL, *q2 = NULL; uint32_t l1 = 0, l2 = 0; int nd = 0;
          verif_set_slotmask(0xffff); TPM_RESULT g1 = TPMLIB_GetState(TPMLIB_STATE_VOLATILE, &q1, &l1);
          verif_set_slotmask(0x00ff); TPM_RESULT g2 = TPMLIB_GetState(TPMLIB_STATE_VOLATILE, &q2, &l2); verif_set_slotmask(m0);
          if (!g1 && !g2 && l1 == l2 && l1 == vol.n && l1 > 42)
              for (uint32_t k = 0; k + 21 < l1; k++) if (q1[k] == 0xff && q1[k + 1] == 0xff && q2[k] == 0x00 && q2[k + 1] == 0xff) { if (slot_at < 0) slot_at = k; nd++; }
          if (nd != 1) slot_at = -1;
          free(q1); free(q2); }
        tr("base perm_len=%u vol_len=%u slotmask_at=%ld", perm.n, vol.n, slot_at);
        /* unmodified blobs must be accepted */
        c06_try(&b, 0, perm.p, perm.n, &perm, &vol, "identity");
        c06_try(&b, 1, vol.p, vol.n, &perm, &vol, "identity");
        /* the skip-size witness of DESIGN.md section 10-A */
        { uint8_t *m = malloc(perm.n); memcpy(m, perm.p, perm.n); m[perm.n - 6] = 0xff; m[perm.n - 5] = 0xff; c06_try(&b, 0, m, perm.n, &perm, &vol, "last-skip=ffff"); free(m); }
        /* fields the harness can locate: the context slot mask (a value the unmarshal code restricts to two legal ones) is found by
           taking the blob twice with the two legal values; every other value must be refused, and what is accepted must work */
        if (slot_at >= 0) { static const uint16_t V[] = {0x0fff, 0x7fff, 0x01ff, 0xff00, 0x0000, 0x0001, 0x8000, 0xfffe, 0x00fe, 0x00ff, 0xffff, 0x03ff};
            for (int vi = 0; vi < 12; vi++) { uint8_t *m = malloc(vol.n); memcpy(m, vol.p, vol.n);
                m[slot_at] = V[vi] >> 8; m[slot_at + 1] = (uint8_t)V[vi]; SHA1(m, vol.n - 20, m + vol.n - 20);
                char d[48]; snprintf(d, sizeof d, "slotmask=%u+sum", V[vi]); c06_try(&b, 1, m, vol.n, &perm, &vol, d); free(m); } }
        /* one type offered as the other */
        c06_try(&b, 0, vol.p, vol.n, &perm, &vol, "vol-as-perm");
        c06_try(&b, 1, perm.p, perm.n, &perm, &vol, "perm-as-vol");
        c06_mutations(&b, 0, &perm, &perm, &vol, budget);
        c06_mutations(&b, 1, &vol, &perm, &vol, budget);
        blob_clear(&perm); blob_clear(&vol);
    }
    tr("stats tried=%ld accepted=%ld rejected=%ld", c06_n, c06_acc, c06_rej);
    w_reset(&w); b_free(&b);
}
