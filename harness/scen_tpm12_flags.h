/* TPM 1.2 enable / activate / ownership / clear flag automaton for the C20 histories (included by scen_tpm12.h after
 * scen_tpm12_nv.h).  Every flag command is an `fl name=...` line with its inputs and the TPM's return code; after each one
 * the flags are read back through TPM_GetCapability(TPM_CAP_FLAG permanent / volatile, TPM_CAP_PROP_OWNER) and a sample of
 * ordinary ordinals is sent: Model.Tpm12.Flags predicts every return code and every flag.  Authorized commands carry the
 * bytes their HMACs were taken over (`ak/aes.. ane ano ac apd amac` for the request, `rne rcont rpd rmac` for the answer):
 * Model.Tpm12.Auth decides from them whether the TPM had to accept, and recomputes the response HMAC. */
#ifndef VERIF_SCEN_TPM12_FLAGS_H
#define VERIF_SCEN_TPM12_FLAGS_H

#define T12_ORD_OwnerClear 0x5B
#define T12_ORD_DisableOwnerClear 0x5C
#define T12_ORD_DisableForceClear 0x5E
#define T12_ORD_OwnerSetDisable 0x6E

static int c20fl_badauth, c20fl_takes;
static uint32_t c20fl_gate_rc;        /* what the last protected probe answered (only steers the choice of commands) */
static const uint8_t c20fl_own[20] = {0xF1, 0xA6, 1, 2, 3, 4, 5, 6, 7, 8, 9, 10, 11, 12, 13, 14, 15, 16, 17, 18}, c20fl_srk[20] = {0};

static void c20fl_line(const char *name, uint32_t ret, uint32_t rc, long stores, const char *fmt, ...) {
    tr_begin("fl name=%s loc=%d hw=%d ret=%u rc=%u stores=%ld", name, g_locality, g_pp, ret, rc, stores);
    if (fmt) { va_list ap; va_start(ap, fmt); fputc(' ', g_tr); vfprintf(g_tr, fmt, ap); va_end(ap); }
}
/* an ordinal without authorization */
static uint32_t c20fl_simple(Buf *b, const char *name, uint32_t ord, int has_bool, int v) {
    t12_begin(b, T12_TAG0, ord); if (has_bool) b_u8(b, (uint8_t)v);
    Rsp r = c20_run(b, name); if (c20nv_skipped(&r)) return r.rc;
    c20fl_line(name, r.ret, r.rc, g_store_perm_in_cmd, "v=%d", v); tr_end();
    return r.rc;
}
static int c20fl_corrupt(void) { if (c20fl_badauth >= 3 || !chance(20)) return 0; c20fl_badauth++; return 1 + rnd(4); }
/* an owner-authorized ordinal over a temporary OIAP session; `secret`: what the client believes the owner secret is */
static uint32_t c20fl_owner_cmd(Buf *b, const char *name, uint32_t ord, int has_bool, int v) {
    T12cSess s; int ver = -1, corrupt = c20fl_corrupt();
    t12c_run = c20_t12c_run;
    if (t12c_oiap(b, &s) != 0) return 0xFFFFFFFFu;
    t12_begin(b, T12_TAG1, ord); if (has_bool) b_u8(b, (uint8_t)v);
    c20nv_have_main = 0; g12c_log.have_req = 0;
    t12c_finish1(b, name, 0, 0, &s, c20fl_own, 0, corrupt, 0, NULL, &ver);
    if (!c20nv_have_main) return 0xFFFFFFFFu;
    c20nv_have_main = 0;
    c20fl_line(name, c20nv_main.ret, c20nv_main.rc, c20nv_main_stores, "v=%d hmac=%d", v, ver); c20_trace_auth(); tr_end();
    return c20nv_main.rc;
}
static void c20fl_take_ownership(Buf *b) {
    int ver = -1, corrupt = c20fl_corrupt();
    t12c_run = c20_t12c_run;
    c20nv_have_main = 0; g12c_log.have_req = 0;
    t12c_take_ownership_x(b, c20fl_own, c20fl_srk, corrupt, &ver);
    if (!c20nv_have_main) return;
    c20nv_have_main = 0;
    if (c20nv_main.rc == 0) c20fl_takes++;
    c20fl_line("takeownership", c20nv_main.ret, c20nv_main.rc, c20nv_main_stores, "hmac=%d", ver); c20_trace_auth(); tr_end();
}
/* the flags as the TPM reports them + a sample of ordinary ordinals */
static void c20fl_observe(Buf *b, int nprobes) {
    uint8_t perm[64] = {0}, vol[32] = {0}; uint32_t pn = 0, vn = 0, rcp, rcv, rco, own = 0;
    t12_begin(b, T12_TAG0, T12_ORD_GetCapability); b_u32(b, 4); b_u32(b, 4); b_u32(b, 0x108);
    Rsp r = c20_run(b, "flperm"); if (c20nv_skipped(&r)) return;
    rcp = r.rc; if (r.rc == 0 && r.len > 14) { pn = r.len - 14; if (pn > sizeof perm) pn = sizeof perm; memcpy(perm, r.p + 14, pn); }
    t12_begin(b, T12_TAG0, T12_ORD_GetCapability); b_u32(b, 4); b_u32(b, 4); b_u32(b, 0x109);
    r = c20_run(b, "flvol"); if (c20nv_skipped(&r)) return;
    rcv = r.rc; if (r.rc == 0 && r.len > 14) { vn = r.len - 14; if (vn > sizeof vol) vn = sizeof vol; memcpy(vol, r.p + 14, vn); }
    t12_begin(b, T12_TAG0, T12_ORD_GetCapability); b_u32(b, 5); b_u32(b, 4); b_u32(b, 0x111);          /* TPM_CAP_PROP_OWNER */
    r = c20_run(b, "flowner"); if (c20nv_skipped(&r)) return;
    rco = r.rc; if (r.rc == 0 && r.len == 15) own = r.p[14];
    tr_begin("fl name=flags loc=%d hw=%d ret=0 rc=%u rcv=%u rco=%u own=%u stores=0", g_locality, g_pp, rcp, rcv, rco, own);
    trhex("perm", perm, pn); trhex("vol", vol, vn); tr_end();
    for (int i = 0; i < nprobes; i++) {
        uint8_t d[20]; const char *p;
        switch (rnd(7)) {
        case 0: p = "pcrread"; t12_begin(b, T12_TAG0, T12_ORD_PcrRead); b_u32(b, rnd(16)); break;
        case 1: p = "getrandom"; t12_begin(b, T12_TAG0, T12_ORD_GetRandom); b_u32(b, 4); break;
        case 2: p = "getticks"; t12_begin(b, T12_TAG0, T12_ORD_GetTicks); break;
        case 3: p = "extend"; c20_rand_bytes(d, 20); t12_begin(b, T12_TAG0, T12_ORD_Extend); b_u32(b, 8 + rnd(8)); b_bytes(b, d, 20); break;
        case 4: p = "nvreaddir"; t12_begin(b, T12_TAG0, T12_ORD_NV_ReadValue); b_u32(b, T12_NV_INDEX_DIR); b_u32(b, 0); b_u32(b, 20); break;
        case 5: p = "getcapflags"; t12_begin(b, T12_TAG0, T12_ORD_GetCapability); b_u32(b, 4); b_u32(b, 4); b_u32(b, 0x108); break;
        default: p = "oiap"; t12_begin(b, T12_TAG0, T12_ORD_OIAP); break;
        }
        r = c20_run(b, p); if (c20nv_skipped(&r)) return;
        c20fl_line("probe", r.ret, r.rc, g_store_perm_in_cmd, "p=%s", p); tr_end();
        if (!strcmp(p, "pcrread") || !strcmp(p, "getrandom") || !strcmp(p, "getticks")) c20fl_gate_rc = r.rc;
        if (!strcmp(p, "oiap") && r.rc == 0 && r.len >= 14) {                     /* do not leak the session */
            uint32_t h = g32(r.p + 10);
            t12_begin(b, T12_TAG0, T12_ORD_Terminate_Handle); b_u32(b, h); Rsp t = c20_run(b, "terminate");
            if (!c20nv_skipped(&t)) tr("op name=other loc=%d ret=%u rc=%u ord=%u stores=%ld", g_locality, t.ret, t.rc, T12_ORD_Terminate_Handle, g_store_perm_in_cmd);
        }
    }
}
static void c20fl_startup(Buf *b, uint16_t st) {
    t12_begin(b, T12_TAG0, T12_ORD_Startup); b_u16(b, st);
    Rsp r = c20_run(b, "startup"); if (c20nv_skipped(&r)) return;
    c20fl_line("startup", r.ret, r.rc, g_store_perm_in_cmd, "st=%u", st); tr_end();
}
static int c20fl_powercycle(void) {
    TPMLIB_Terminate(); TPM_RESULT ret = TPMLIB_MainInit();
    tr("restart ret=%u maxbuf=%u", ret, tpm12_maxbuf());
    c20fl_badauth = 0;                                   /* the failed-authorization count is ST_CLEAR data */
    return ret == TPM_SUCCESS;
}
/* one of the restarts; returns 0 when the history cannot go on */
static int c20fl_restart(Buf *b) {
    int kind = rnd(10);
    if (kind < 6) {                                     /* power cycle, Startup of any type */
        if (!c20fl_powercycle()) return 0;
        if (chance(15)) { c20fl_simple(b, "physicalenable", T12_ORD_PhysicalEnable, 0, 0); c20fl_observe(b, 1); }    /* before Startup */
        uint16_t st = chance(60) ? 1 : chance(55) ? 3 : 2;
        c20fl_startup(b, st);
        if (st == 2) { if (!c20fl_powercycle()) return 0; c20fl_startup(b, chance(70) ? 1 : 3); }    /* no saved state: failed state, start over */
        if (chance(10)) c20fl_startup(b, 1 + rnd(3));    /* a second Startup is refused */
    } else if (kind < 9) {                              /* TPM_SaveState, power cycle, Startup(ST_STATE) */
        Rsp r; t12_begin(b, T12_TAG0, T12_ORD_SaveState); r = c20_run(b, "savestate"); if (c20nv_skipped(&r)) return 1;
        c20fl_line("savestate", r.ret, r.rc, g_store_perm_in_cmd, NULL); tr_end();
        if (chance(15)) c20fl_observe(b, 0);             /* any command invalidates the saved state */
        if (!c20fl_powercycle()) return 0;
        c20fl_startup(b, 2);
        t12_begin(b, T12_TAG0, T12_ORD_GetTestResult); r = c20_run(b, "gtr");      /* failed state? then start over */
        t12_begin(b, T12_TAG0, T12_ORD_GetCapability); b_u32(b, 4); b_u32(b, 4); b_u32(b, 0x109); r = c20_run(b, "flvol");
        if (!c20nv_skipped(&r)) { c20fl_line("probe", r.ret, r.rc, g_store_perm_in_cmd, "p=getcapflags"); tr_end(); }
        if (r.rc == T12_RC_FAILEDSELFTEST) { if (!c20fl_powercycle()) return 0; c20fl_startup(b, 1); }
    } else {                                            /* suspend / resume through the state blobs */
        unsigned char *blob[2] = {0}; uint32_t len[2] = {0}; TPM_RESULT ret = 0;
        enum TPMLIB_StateType ty[2] = {TPMLIB_STATE_PERMANENT, TPMLIB_STATE_VOLATILE};
        for (int k = 0; k < 2; k++) ret |= TPMLIB_GetState(ty[k], &blob[k], &len[k]);
        TPMLIB_Terminate();
        for (int k = 0; k < 2; k++) ret |= TPMLIB_SetState(ty[k], blob[k], len[k]);
        ret |= TPMLIB_MainInit();
        for (int k = 0; k < 2; k++) free(blob[k]);
        tr("resume ret=%u", ret);
        if (ret != TPM_SUCCESS) return 0;
    }
    c20fl_observe(b, 2);
    return 1;
}
/* a whole history of the flag automaton */
static void c20fl_history(Buf *b, int nops) {
    c20fl_badauth = 0; c20fl_takes = 0; c20fl_gate_rc = 0;
    t12c_run = c20_t12c_run; memset(&g12c, 0, sizeof g12c);
    c20fl_startup(b, chance(85) ? 1 : 3);
    c20fl_observe(b, 3);
    if (chance(85)) {                                   /* command presence enabled and asserted */
        for (int k = 0; k < 2; k++) {
            uint16_t v = k ? 0x08 : 0x20;
            t12_begin(b, T12_TAG0, T12_TSC_PhysicalPresence); b_u16(b, v);
            Rsp r = c20_run(b, "tscpp"); if (c20nv_skipped(&r)) break;
            c20fl_line("tscpp", r.ret, r.rc, g_store_perm_in_cmd, "v=%u", v); tr_end();
        }
    }
    if (chance(90)) {                                   /* an endorsement key (one RSA key generation) */
        c20nv_have_main = 0;
        t12c_create_ek(b);
        if (c20nv_have_main) { c20nv_have_main = 0; c20fl_line("createek", c20nv_main.ret, c20nv_main.rc, c20nv_main_stores, NULL); tr_end(); }
    }
    c20fl_observe(b, 1);
    for (int i = 0; i < nops; i++) {
        if (chance(15)) g_locality = rnd(5);
        if (chance(8)) g_pp = rnd(2);
        long before = g_store_calls;
        if ((c20fl_gate_rc == 6 || c20fl_gate_rc == 7) && chance(35)) {          /* disabled / deactivated: the way back */
            t12_begin(b, T12_TAG0, T12_TSC_PhysicalPresence); b_u16(b, 0x08);
            Rsp r = c20_run(b, "tscpp"); if (c20nv_skipped(&r)) continue;
            c20fl_line("tscpp", r.ret, r.rc, g_store_perm_in_cmd, "v=8"); tr_end();
            c20fl_simple(b, "physicalenable", T12_ORD_PhysicalEnable, 0, 0);
            c20fl_simple(b, "physicalsetdeactivated", T12_ORD_PhysicalSetDeactivated, 1, 0);
            c20fl_observe(b, 1);
            if (chance(70)) { if (!c20fl_powercycle()) return; c20fl_startup(b, 1); }
            c20fl_gate_rc = 0;
            c20fl_observe(b, 2);
            continue;
        }
        switch (rnd(26)) {
        case 0: case 1: case 2: {
            uint16_t v = chance(88) ? (uint16_t[]){0x20, 0x08, 0x08, 0x08, 0x10, 0x04, 0x40, 0x200, 0x100, 0x20}[rnd(10)] : chance(60) ? (uint16_t[]){0x28, 0x18, 0x0c, 0x60, 0, 0x1}[rnd(6)] : (uint16_t)rnd64();
            if (v == 0x80) v = 0x08;
            t12_begin(b, T12_TAG0, T12_TSC_PhysicalPresence); b_u16(b, v);
            Rsp r = c20_run(b, "tscpp"); if (c20nv_skipped(&r)) break;
            c20fl_line("tscpp", r.ret, r.rc, g_store_perm_in_cmd, "v=%u", v); tr_end(); break; }
        case 3: case 4: c20fl_simple(b, "physicalenable", T12_ORD_PhysicalEnable, 0, 0); break;
        case 5: c20fl_simple(b, "physicaldisable", T12_ORD_PhysicalDisable, 0, 0); break;
        case 6: case 7: c20fl_simple(b, "physicalsetdeactivated", T12_ORD_PhysicalSetDeactivated, 1, chance(60) ? 0 : 1); break;
        case 8: c20fl_simple(b, "settempdeactivated", T12_ORD_SetTempDeactivated, 0, 0); break;
        case 9: case 10: c20fl_simple(b, "setownerinstall", T12_ORD_SetOwnerInstall, 1, chance(65) ? 1 : 0); break;
        case 11: case 12: c20fl_owner_cmd(b, "ownersetdisable", T12_ORD_OwnerSetDisable, 1, chance(60) ? 0 : 1); break;
        case 13: case 14: case 15: if (c20fl_takes < 2) c20fl_take_ownership(b); else c20fl_owner_cmd(b, "ownersetdisable", T12_ORD_OwnerSetDisable, 1, 0); break;
        case 16: case 17: c20fl_owner_cmd(b, "ownerclear", T12_ORD_OwnerClear, 0, 0); break;
        case 18: c20fl_simple(b, "forceclear", T12_ORD_ForceClear, 0, 0); break;
        case 19: c20fl_owner_cmd(b, "disableownerclear", T12_ORD_DisableOwnerClear, 0, 0); break;
        case 20: c20fl_simple(b, "disableforceclear", T12_ORD_DisableForceClear, 0, 0); break;
        case 21: {                                       /* the usual way back to an enabled, activated TPM */
            t12_begin(b, T12_TAG0, T12_TSC_PhysicalPresence); b_u16(b, 0x08);
            Rsp r = c20_run(b, "tscpp"); if (c20nv_skipped(&r)) break;
            c20fl_line("tscpp", r.ret, r.rc, g_store_perm_in_cmd, "v=8"); tr_end();
            c20fl_simple(b, "physicalenable", T12_ORD_PhysicalEnable, 0, 0);
            c20fl_simple(b, "physicalsetdeactivated", T12_ORD_PhysicalSetDeactivated, 1, 0); break; }
        default: c20fl_observe(b, 1); continue;
        }
        c20fl_observe(b, chance(60) ? 1 : 2);
        /* a restart placed immediately after the command, mostly when it wrote storage */
        if (chance(g_store_calls != before ? 30 : 6) && !c20fl_restart(b)) return;
    }
    c20fl_observe(b, 3);
}
#endif
