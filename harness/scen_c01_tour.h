/* C01: a tour of commands the other scenarios never run to completion — attestation, credentials, ECC encryption and
   key exchange, sealed data, ObjectChangeAuth, the remaining policy commands, self tests. Every command is sent with
   valid parameters on a fresh TPM so that its body runs (under ASan/UBSan) and its response is framed by the model.
   A `tour` line names each command and whether it succeeded. */
static uint32_t tour_rc;
static Buf tour_last;   /* the previous tour command: an altered copy of it is sent before the next one */
static Rsp tour_run(Buf *b, const char *name) {
    if (tour_last.n >= 10 && chance(50)) { int tx = g_trace_x; g_trace_x = 0; c01_mutate_and_send(&tour_last, 1); g_trace_x = tx; }
    b_put32(b, 2, (uint32_t)b->n); b_reset(&tour_last); b_bytes(&tour_last, b->p, b->n);
    Rsp r = run(b); tour_rc = r.rc; tr("tour cmd=%s cc=%x rc=%u", name, (unsigned)g32(b->p + 6), r.rc); return r; }
static void tour_sha256(const uint8_t *a, size_t al, const uint8_t *b2, size_t bl, uint8_t out[32]) {
    EVP_MD_CTX *c = EVP_MD_CTX_new(); unsigned int l; EVP_DigestInit_ex(c, EVP_sha256(), NULL); EVP_DigestUpdate(c, a, al); if (bl) EVP_DigestUpdate(c, b2, bl); EVP_DigestFinal_ex(c, out, &l); EVP_MD_CTX_free(c);
}
typedef struct { uint32_t h; uint8_t name[34]; int nl; uint8_t pub[200]; int pl; uint8_t chash[32]; uint8_t ticket[80]; int tl; } TourKey;
/* CreatePrimary in the owner hierarchy; keeps Name, public area, creation hash and ticket */
static int tour_primary(Buf *b, Buf *tmpl, TourKey *k, const char *what) {
    cmd_begin(b, ST_SESSIONS, CC_CreatePrimary); b_u32(b, RH_OWNER); auth_pw(b, "", 0); b_u16(b, 4); b_u16(b, 0); b_u16(b, 0); b_2b(b, tmpl->p, tmpl->n); b_u16(b, 0); b_u32(b, 0);
    Rsp r = tour_run(b, what); memset(k, 0, sizeof *k);
    if (r.rc != 0) return -1;
    k->h = g32(r.p + 10); Rd rd = rsp_params(&r, 1); uint16_t l; const uint8_t *p = r_2b(&rd, &l); if (l <= 200) { memcpy(k->pub, p, l); k->pl = l; }
    r_2b(&rd, &l); p = r_2b(&rd, &l); if (l == 32) memcpy(k->chash, p, 32);
    size_t t0 = rd.off; r_u16(&rd); r_u32(&rd); r_2b(&rd, &l); k->tl = (int)(rd.off - t0); if (k->tl <= 80) memcpy(k->ticket, r.p + t0, k->tl); else k->tl = 0;
    p = r_2b(&rd, &l); if (l <= 34) { memcpy(k->name, p, l); k->nl = l; }
    return rd.err ? -1 : 0;
}
static void tour_flush(Buf *b, uint32_t h) { if (h) { cmd_begin(b, ST_NO_SESSIONS, CC_FlushContext); b_u32(b, h); run(b); } }
static void tour_auth2(Buf *b) { b_u32(b, 18); b_u32(b, RS_PW); b_u16(b, 0); b_u8(b, 0); b_u16(b, 0); b_u32(b, RS_PW); b_u16(b, 0); b_u8(b, 0); b_u16(b, 0); }
static int tour_ntl;
static uint32_t tour_policy_session(Buf *b, int trial, uint8_t nonceTPM[32]) {
    uint8_t nonce[16] = {0}; cmd_begin(b, ST_NO_SESSIONS, CC_StartAuthSession); b_u32(b, RH_NULL); b_u32(b, RH_NULL); b_2b(b, nonce, 16); b_u16(b, 0); b_u8(b, trial ? 3 : 1); b_u16(b, ALG_NULL); b_u16(b, ALG_SHA256);
    Rsp r = run(b); if (r.rc != 0 || r.len < 16) return 0;
    if (nonceTPM) { uint16_t l = g16(r.p + 14); tour_ntl = 0; if (l <= 32) { memcpy(nonceTPM, r.p + 16, l); tour_ntl = l; } }
    return g32(r.p + 10);
}

static void tour_dk(Buf *b, TourKey *dkp) {
    TourKey dk = *dkp;
    if (dk.h) {
        /* ECC encryption, two-phase key exchange */
        cmd_begin(b, ST_NO_SESSIONS, 0x199); b_u32(b, dk.h); b_2b(b, "plain text", 10); b_u16(b, 0x0021 /* KDF2 */); b_u16(b, ALG_SHA256); Rsp r = tour_run(b, "ECC_Encrypt");
        if (r.rc == 0) { uint8_t c[400]; uint32_t cl = r.len - 10; if (cl <= 400) { memcpy(c, r.p + 10, cl);
            cmd_begin(b, ST_SESSIONS, 0x19A); b_u32(b, dk.h); auth_pw(b, "", 0); b_bytes(b, c, cl); b_u16(b, 0x0021); b_u16(b, ALG_SHA256); tour_run(b, "ECC_Decrypt"); } }
        cmd_begin(b, ST_NO_SESSIONS, 0x18E); b_u16(b, 3); r = tour_run(b, "EC_Ephemeral");
        if (r.rc == 0) { uint16_t pl = g16(r.p + 10); uint8_t pt[140]; if (pl <= 136) { memcpy(pt, r.p + 10, 2 + pl); uint16_t ctr = g16(r.p + 12 + pl);
            cmd_begin(b, ST_SESSIONS, 0x18D); b_u32(b, dk.h); auth_pw(b, "", 0); b_bytes(b, pt, 2 + pl); b_bytes(b, pt, 2 + pl); b_u16(b, 0x0019 /* ECDH */); b_u16(b, ctr); tour_run(b, "ZGen_2Phase"); } }
        cmd_begin(b, ST_SESSIONS, CC_ECDH_ZGen); b_u32(b, dk.h); auth_pw(b, "", 0); b_u16(b, 4 + 64); b_2b(b, dk.pub + dk.pl - 68 + 2, 32); b_2b(b, dk.pub + dk.pl - 32, 32); tour_run(b, "ECDH_ZGen-own-point");
    }
}

static void c01_valid_tour(Buf *b) {
    tr("tour cmd=begin cc=0 rc=0");
    Buf t = {0}; TourKey sk, st, dk; uint8_t q[2] = {'q', 'd'};
    /* keys: ECC signing key, ECC storage key, ECC decryption key (unrestricted, scheme open) */
    tmpl_ecc_sign(&t, 0, NULL, 0); tour_primary(b, &t, &sk, "CreatePrimary-sign");
    tmpl_ecc_sign(&t, 1, NULL, 0); tour_primary(b, &t, &st, "CreatePrimary-storage");
    b_reset(&t); b_u16(&t, ALG_ECC); b_u16(&t, ALG_SHA256); b_u32(&t, 0x00020472u); b_u16(&t, 0); b_u16(&t, ALG_NULL); b_u16(&t, ALG_NULL); b_u16(&t, 3); b_u16(&t, ALG_NULL); b_u16(&t, 0); b_u16(&t, 0);
    tour_primary(b, &t, &dk, "CreatePrimary-decrypt");
    tour_dk(b, &dk); tour_flush(b, dk.h); dk.h = 0;   /* three object slots: the decryption key lives only for its own block */
    /* self tests, curve parameters */
    cmd_begin(b, ST_NO_SESSIONS, CC_SelfTest); b_u8(b, 0); tour_run(b, "SelfTest");
    cmd_begin(b, ST_NO_SESSIONS, 0x142); b_u32(b, 2); b_u16(b, ALG_SHA256); b_u16(b, ALG_AES); tour_run(b, "IncrementalSelfTest");
    cmd_begin(b, ST_NO_SESSIONS, 0x178); b_u16(b, 3); tour_run(b, "ECC_Parameters");
    cmd_begin(b, ST_SESSIONS, 0x13F); b_u32(b, RH_PLATFORM); auth_pw(b, "", 0); b_u32(b, 0); tour_run(b, "SetAlgorithmSet");
    if (sk.h) {
        /* attestation */
        cmd_begin(b, ST_SESSIONS, 0x14C); b_u32(b, RH_ENDORSEMENT); b_u32(b, sk.h); tour_auth2(b); b_2b(b, q, 2); b_u16(b, ALG_NULL); tour_run(b, "GetTime");
        cmd_begin(b, ST_SESSIONS, 0x148); b_u32(b, sk.h); b_u32(b, sk.h); tour_auth2(b); b_2b(b, q, 2); b_u16(b, ALG_NULL); tour_run(b, "Certify");
        cmd_begin(b, ST_SESSIONS, 0x14A); b_u32(b, sk.h); b_u32(b, sk.h); auth_pw(b, "", 0); b_2b(b, q, 2); b_2b(b, sk.chash, 32); b_u16(b, ALG_NULL); b_bytes(b, sk.ticket, sk.tl); tour_run(b, "CertifyCreation");
        cmd_begin(b, ST_SESSIONS, 0x133); b_u32(b, RH_ENDORSEMENT); b_u32(b, sk.h); tour_auth2(b); b_2b(b, q, 2); b_u16(b, ALG_NULL); tour_run(b, "GetCommandAuditDigest");
        /* an audit session: used once with the audit attribute, then its digest is attested */
        { uint8_t nonce[16] = {0}; cmd_begin(b, ST_NO_SESSIONS, CC_StartAuthSession); b_u32(b, RH_NULL); b_u32(b, RH_NULL); b_2b(b, nonce, 16); b_u16(b, 0); b_u8(b, 0); b_u16(b, ALG_NULL); b_u16(b, ALG_SHA256);
          Rsp r = run(b); if (r.rc == 0) { uint32_t as = g32(r.p + 10);
              cmd_begin(b, ST_SESSIONS, CC_GetRandom); b_u32(b, 9); b_u32(b, as); b_u16(b, 0); b_u8(b, 0x81); b_u16(b, 0); b_u16(b, 4); tour_run(b, "GetRandom-audited");
              cmd_begin(b, ST_SESSIONS, 0x14D); b_u32(b, RH_ENDORSEMENT); b_u32(b, sk.h); b_u32(b, as); tour_auth2(b); b_2b(b, q, 2); b_u16(b, ALG_NULL); tour_run(b, "GetSessionAuditDigest");
              tour_flush(b, as); } }
    }
    if (st.h) {
        /* sealed data: Create, Load, Unseal, ObjectChangeAuth */
        b_reset(&t); b_u16(&t, ALG_KEYEDHASH); b_u16(&t, ALG_SHA256); b_u32(&t, 0x00000452u); b_u16(&t, 0); b_u16(&t, ALG_NULL); b_u16(&t, 0);
        cmd_begin(b, ST_SESSIONS, CC_Create); b_u32(b, st.h); auth_pw(b, "", 0); b_u16(b, 4 + 6); b_u16(b, 0); b_2b(b, "secret", 6); b_2b(b, t.p, t.n); b_u16(b, 0); b_u32(b, 0);
        Rsp r = tour_run(b, "Create-sealed");
        if (r.rc == 0) { Rd rd = rsp_params(&r, 0); uint16_t prl, pul; const uint8_t *p1 = r_2b(&rd, &prl); const uint8_t *p2 = r_2b(&rd, &pul); uint8_t priv[400], pub[200];
            if (!rd.err && prl <= 400 && pul <= 200) { memcpy(priv, p1, prl); memcpy(pub, p2, pul);
                cmd_begin(b, ST_SESSIONS, CC_Load); b_u32(b, st.h); auth_pw(b, "", 0); b_2b(b, priv, prl); b_2b(b, pub, pul); r = tour_run(b, "Load-sealed");
                if (r.rc == 0) { uint32_t sh = g32(r.p + 10);
                    cmd_begin(b, ST_SESSIONS, CC_Unseal); b_u32(b, sh); auth_pw(b, "", 0); tour_run(b, "Unseal");
                    cmd_begin(b, ST_SESSIONS, CC_ObjectChangeAuth); b_u32(b, sh); b_u32(b, st.h); auth_pw(b, "", 0); b_2b(b, "new", 3); tour_run(b, "ObjectChangeAuth");
                    tour_flush(b, sh); } } }
        /* credentials: MakeCredential for the signing key under the storage key, ActivateCredential */
        if (sk.h) { cmd_begin(b, ST_NO_SESSIONS, 0x168); b_u32(b, st.h); b_2b(b, "credential-value", 16); b_2b(b, sk.name, sk.nl); r = tour_run(b, "MakeCredential");
            if (r.rc == 0) { uint16_t bl = g16(r.p + 10); uint8_t blob[200], sec[200]; uint16_t sl = 0; if (bl <= 200) { memcpy(blob, r.p + 12, bl); sl = g16(r.p + 12 + bl); if (sl <= 200) memcpy(sec, r.p + 14 + bl, sl); }
                if (bl <= 200 && sl <= 200) { cmd_begin(b, ST_SESSIONS, 0x147); b_u32(b, sk.h); b_u32(b, st.h); tour_auth2(b); b_2b(b, blob, bl); b_2b(b, sec, sl); tour_run(b, "ActivateCredential"); } } }
    }
    /* a PUBLIC-ONLY object (LoadExternal without a sensitive area) in every handle position that asks for an authorization: there is
       no authValue to check, each of these must be answered with an ordinary error */
    if (sk.h && sk.pl) { cmd_begin(b, ST_NO_SESSIONS, CC_LoadExternal); b_u16(b, 0); b_2b(b, sk.pub, sk.pl); b_u32(b, RH_NULL); Rsp r = tour_run(b, "LoadExternal-public-only");
        if (r.rc == 0) { uint32_t po = g32(r.p + 10);
            cmd_begin(b, ST_SESSIONS, 0x148); b_u32(b, po); b_u32(b, sk.h); tour_auth2(b); b_2b(b, q, 2); b_u16(b, ALG_NULL); tour_run(b, "Certify-public-only-object");
            cmd_begin(b, ST_SESSIONS, 0x148); b_u32(b, sk.h); b_u32(b, po); tour_auth2(b); b_2b(b, q, 2); b_u16(b, ALG_NULL); tour_run(b, "Certify-public-only-signer");
            if (st.h) { cmd_begin(b, ST_SESSIONS, CC_ObjectChangeAuth); b_u32(b, po); b_u32(b, st.h); auth_pw(b, "", 0); b_2b(b, "new", 3); tour_run(b, "ObjectChangeAuth-public-only");
                cmd_begin(b, ST_SESSIONS, 0x147); b_u32(b, po); b_u32(b, st.h); tour_auth2(b); b_2b(b, "0123456789abcdef0123456789abcdef01", 34); b_2b(b, "0123456789abcdef", 16); tour_run(b, "ActivateCredential-public-only"); }
            { uint8_t dg[32] = {0}; cmd_begin(b, ST_SESSIONS, CC_Sign); b_u32(b, po); auth_pw(b, "", 0); b_2b(b, dg, 32); b_u16(b, ALG_NULL); b_u16(b, 0x8024); b_u32(b, RH_NULL); b_u16(b, 0); tour_run(b, "Sign-public-only"); }
            cmd_begin(b, ST_SESSIONS, 0x14A); b_u32(b, sk.h); b_u32(b, po); auth_pw(b, "", 0); b_2b(b, q, 2); b_2b(b, sk.chash, 32); b_u16(b, ALG_NULL); b_bytes(b, sk.ticket, sk.tl); tour_run(b, "CertifyCreation-public-only-object");
            cmd_begin(b, ST_SESSIONS, CC_PolicySecret); b_u32(b, po); b_u32(b, RH_NULL); auth_pw(b, "", 0); b_u16(b, 0); b_u16(b, 0); b_u16(b, 0); b_u32(b, 0); tour_run(b, "PolicySecret-public-only");
            cmd_begin(b, ST_SESSIONS, CC_EvictControl); b_u32(b, RH_OWNER); b_u32(b, po); auth_pw(b, "", 0); b_u32(b, 0x81000077u); tour_run(b, "EvictControl-public-only");
            tour_flush(b, po); } }
    /* the old EncryptDecrypt with its own parameter order */
    { b_reset(&t); tmpl_symcipher(&t, NULL, 0); TourKey ck; tour_primary(b, &t, &ck, "CreatePrimary-aes");
      if (ck.h) { uint8_t iv[16] = {0}; cmd_begin(b, ST_SESSIONS, CC_EncryptDecrypt); b_u32(b, ck.h); auth_pw(b, "", 0); b_u8(b, 0); b_u16(b, ALG_CFB); b_2b(b, iv, 16); b_2b(b, "0123456789abcdef", 16); tour_run(b, "EncryptDecrypt"); tour_flush(b, ck.h); } }
    /* NV index for the NV-based policy commands */
    cmd_begin(b, ST_SESSIONS, CC_NV_DefineSpace); b_u32(b, RH_OWNER); auth_pw(b, "", 0); b_u16(b, 0); b_u16(b, 14); b_u32(b, 0x01500020u); b_u16(b, ALG_SHA256); b_u32(b, (1u << 2) | (1u << 18) | (1u << 1) | (1u << 17)); b_u16(b, 0); b_u16(b, 34); run(b);
    /* policy commands on one policy session, restarted in between */
    { uint8_t nt[32] = {0}; uint32_t ps = tour_policy_session(b, 0, nt); uint8_t d32[32]; memset(d32, 0x5c, 32);
      if (ps) {
        cmd_begin(b, ST_NO_SESSIONS, 0x16F); b_u32(b, ps); b_u8(b, 1); tour_run(b, "PolicyLocality");
        cmd_begin(b, ST_NO_SESSIONS, 0x16E); b_u32(b, ps); b_2b(b, d32, 32); tour_run(b, "PolicyCpHash");
        cmd_begin(b, ST_NO_SESSIONS, CC_PolicyRestart); b_u32(b, ps); run(b);
        cmd_begin(b, ST_NO_SESSIONS, 0x170); b_u32(b, ps); b_2b(b, d32, 32); tour_run(b, "PolicyNameHash");
        cmd_begin(b, ST_NO_SESSIONS, 0x187); b_u32(b, ps); tour_run(b, "PolicyPhysicalPresence");
        cmd_begin(b, ST_NO_SESSIONS, 0x18F); b_u32(b, ps); b_u8(b, 1); tour_run(b, "PolicyNvWritten");
        cmd_begin(b, ST_NO_SESSIONS, CC_PolicyRestart); b_u32(b, ps); run(b);
        cmd_begin(b, ST_NO_SESSIONS, 0x190); b_u32(b, ps); b_2b(b, d32, 32); tour_run(b, "PolicyTemplate");
        { uint8_t zero8[8] = {0}; cmd_begin(b, ST_NO_SESSIONS, 0x16D); b_u32(b, ps); b_2b(b, zero8, 8); b_u16(b, 0); b_u16(b, 0x0007 /* UNSIGNED_GE */); tour_run(b, "PolicyCounterTimer"); }
        if (sk.h && st.h) { cmd_begin(b, ST_NO_SESSIONS, CC_PolicyRestart); b_u32(b, ps); run(b);
            cmd_begin(b, ST_NO_SESSIONS, 0x188); b_u32(b, ps); b_2b(b, sk.name, sk.nl); b_2b(b, st.name, st.nl); b_u8(b, 1); tour_run(b, "PolicyDuplicationSelect"); }
        cmd_begin(b, ST_NO_SESSIONS, CC_PolicyRestart); b_u32(b, ps); run(b);
        { uint8_t zero8[8] = {0}; cmd_begin(b, ST_NO_SESSIONS, 0x19B); b_u32(b, ps); b_2b(b, zero8, 4); b_u16(b, 0); b_u16(b, 0x0007); b_u32(b, 6 /* TPM_PROPERTIES */); b_u32(b, 0x100); tour_run(b, "PolicyCapability"); }
        cmd_begin(b, ST_NO_SESSIONS, 0x19C); b_u32(b, ps); b_2b(b, d32, 32); tour_run(b, "PolicyParameters");
        /* PolicyNV / PolicyAuthorizeNV with the index written first */
        { uint8_t nvd[34]; nvd[0] = 0; nvd[1] = 0x0B; memset(nvd + 2, 0, 32);
          cmd_begin(b, ST_SESSIONS, CC_NV_Write); b_u32(b, RH_OWNER); b_u32(b, 0x01500020u); auth_pw(b, "", 0); b_2b(b, nvd, 34); b_u16(b, 0); run(b);
          cmd_begin(b, ST_NO_SESSIONS, CC_PolicyRestart); b_u32(b, ps); run(b);
          cmd_begin(b, ST_SESSIONS, 0x149); b_u32(b, RH_OWNER); b_u32(b, 0x01500020u); b_u32(b, ps); auth_pw(b, "", 0); b_2b(b, nvd, 2); b_u16(b, 0); b_u16(b, 0 /* EQ */); tour_run(b, "PolicyNV");
          cmd_begin(b, ST_NO_SESSIONS, CC_PolicyRestart); b_u32(b, ps); run(b);
          cmd_begin(b, ST_SESSIONS, 0x192); b_u32(b, RH_OWNER); b_u32(b, 0x01500020u); b_u32(b, ps); auth_pw(b, "", 0); tour_run(b, "PolicyAuthorizeNV"); }
        /* PolicySecret, PolicySigned (signature made by the TPM's own signing key over the authorization digest), PolicyTicket */
        cmd_begin(b, ST_NO_SESSIONS, CC_PolicyRestart); b_u32(b, ps); run(b);
        cmd_begin(b, ST_SESSIONS, CC_PolicySecret); b_u32(b, RH_OWNER); b_u32(b, ps); auth_pw(b, "", 0); b_u16(b, 0); b_u16(b, 0); b_u16(b, 0); b_u32(b, 0); tour_run(b, "PolicySecret");
        if (sk.h) { uint8_t exp[4] = {0xff, 0xff, 0xff, 0x9c}; /* -100 s: a ticket is returned */ uint8_t in[36], ah[32]; memcpy(in, nt, tour_ntl); memcpy(in + tour_ntl, exp, 4); tour_sha256(in, tour_ntl + 4, NULL, 0, ah);
            cmd_begin(b, ST_SESSIONS, CC_Sign); b_u32(b, sk.h); auth_pw(b, "", 0); b_2b(b, ah, 32); b_u16(b, ALG_NULL); b_u16(b, 0x8024); b_u32(b, RH_NULL); b_u16(b, 0); Rsp s = run(b);
            if (s.rc == 0) { Rd rd = rsp_params(&s, 0); size_t s0 = rd.off; r_u16(&rd); r_u16(&rd); uint16_t l; r_2b(&rd, &l); r_2b(&rd, &l); uint8_t sig[160]; int sl = (int)(rd.off - s0);
                if (!rd.err && sl <= 160) { memcpy(sig, s.p + s0, sl);
                    cmd_begin(b, ST_NO_SESSIONS, 0x160); b_u32(b, sk.h); b_u32(b, ps); b_2b(b, nt, tour_ntl); b_u16(b, 0); b_u16(b, 0); b_bytes(b, exp, 4); b_bytes(b, sig, sl); Rsp pr = tour_run(b, "PolicySigned");
                    if (pr.rc == 0) { uint16_t tol = g16(pr.p + 10); uint8_t to[16]; if (tol <= 16) { memcpy(to, pr.p + 12, tol); uint8_t tk[80]; int tkl = (int)(pr.len - 12 - tol); if (tkl > 0 && tkl <= 80) { memcpy(tk, pr.p + 12 + tol, tkl);
                        cmd_begin(b, ST_NO_SESSIONS, CC_PolicyRestart); b_u32(b, ps); run(b);
                        cmd_begin(b, ST_NO_SESSIONS, 0x172); b_u32(b, ps); b_2b(b, to, tol); b_u16(b, 0); b_u16(b, 0); b_2b(b, sk.name, sk.nl); b_bytes(b, tk, tkl); tour_run(b, "PolicyTicket"); } } } } }
            /* PolicyAuthorize: the signing key approves a policy digest; VerifySignature gives the ticket */
            uint8_t approved[32]; memset(approved, 0, 32); uint8_t ah2[32]; tour_sha256(approved, 32, NULL, 0, ah2);
            cmd_begin(b, ST_SESSIONS, CC_Sign); b_u32(b, sk.h); auth_pw(b, "", 0); b_2b(b, ah2, 32); b_u16(b, ALG_NULL); b_u16(b, 0x8024); b_u32(b, RH_NULL); b_u16(b, 0); s = run(b);
            if (s.rc == 0) { Rd rd = rsp_params(&s, 0); size_t s0 = rd.off; r_u16(&rd); r_u16(&rd); uint16_t l; r_2b(&rd, &l); r_2b(&rd, &l); uint8_t sig[160]; int sl = (int)(rd.off - s0);
                if (!rd.err && sl <= 160) { memcpy(sig, s.p + s0, sl);
                    cmd_begin(b, ST_NO_SESSIONS, CC_VerifySignature); b_u32(b, sk.h); b_2b(b, ah2, 32); b_bytes(b, sig, sl); Rsp v = tour_run(b, "VerifySignature");
                    if (v.rc == 0) { uint8_t tk[80]; int tkl = (int)(v.len - 10); if (tkl <= 80) { memcpy(tk, v.p + 10, tkl);
                        cmd_begin(b, ST_NO_SESSIONS, CC_PolicyRestart); b_u32(b, ps); run(b);
                        cmd_begin(b, ST_NO_SESSIONS, 0x16A); b_u32(b, ps); b_2b(b, approved, 32); b_u16(b, 0); b_2b(b, sk.name, sk.nl); b_bytes(b, tk, tkl); tour_run(b, "PolicyAuthorize"); } } } } }
        tour_flush(b, ps); } }
    cmd_begin(b, ST_SESSIONS, CC_NV_UndefineSpace); b_u32(b, RH_OWNER); b_u32(b, 0x01500020u); auth_pw(b, "", 0); run(b);
    tour_flush(b, sk.h); tour_flush(b, st.h); tour_flush(b, dk.h); b_free(&t);
    tr("tour cmd=end cc=0 rc=0");
}
