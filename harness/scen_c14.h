/* C14: the profile fixes, enforces and carries the TPM 2 command/algorithm surface. Custom profiles over random subsets
 * of commands/algorithms/min sizes/StateFormatLevels (valid and invalid), the surface probed command by command and
 * through GetCapability/TestParms, then carried through restart, resume, a later SetProfile and a round trip of the
 * reported ActiveProfile. The Lean model (Model.Profile) decides acceptance and predicts the surface. */
static const char *C14_ALGS[] = { "rsa", "tdes", "sha1", "hmac", "aes", "mgf1", "keyedhash", "xor", "sha256", "sha384", "sha512", "null", "rsassa", "rsaes", "rsapss",
    "oaep", "ecdsa", "ecdh", "ecdaa", "sm2", "ecschnorr", "ecmqv", "kdf1-sp800-56a", "kdf2", "kdf1-sp800-108", "ecc", "ecc-nist", "ecc-bn", "ecc-sm2-p256",
    "symcipher", "camellia", "cmac", "ctr", "ofb", "cbc", "cfb", "ecb", "ecc-nist-p192", "ecc-nist-p224", "ecc-nist-p256", "ecc-nist-p384", "ecc-nist-p521", "ecc-bn-p256", "ecc-bn-p638" };
#define C14_NALGS 44
static uint8_t c14_candisable_cmd[0x1A0];   /* learned from GetInfo(RUNTIME_COMMANDS) */
static uint8_t c14_impl_cmd[0x1A0];

static void c14_parse_ranges(const char *s, uint8_t *set) {
    while (*s && *s != '"') { char *e; unsigned long lo = strtoul(s, &e, 0), hi = lo; if (e == s) break; if (*e == '-') hi = strtoul(e + 1, &e, 0);
        for (unsigned long c = lo; c <= hi && c < 0x1A0; c++) set[c] = 1; s = e; if (*s == ',') s++; }
}
static void c14_learn(void) {
    char *js = TPMLIB_GetInfo(TPMLIB_INFO_RUNTIME_COMMANDS); memset(c14_candisable_cmd, 0, sizeof c14_candisable_cmd); memset(c14_impl_cmd, 0, sizeof c14_impl_cmd);
    if (js) { char *p = strstr(js, "\"CanBeDisabled\":\""); if (p) c14_parse_ranges(p + 17, c14_candisable_cmd); p = strstr(js, "\"Implemented\":\""); if (p) c14_parse_ranges(p + 15, c14_impl_cmd); }
    free(js);
}
/* print a command set as ranges (the harness's own printer; the model parses it) */
static int c14_print_cmds(char *out, const uint8_t *en, int style) {
    int n = 0, first = 1;
    for (int c = 0x11F; c < 0x1A0; ) { if (!en[c]) { c++; continue; } int hi = c; while (hi + 1 < 0x1A0 && en[hi + 1]) hi++;
        const char *fmt = style == 1 ? "%s%d" : style == 2 ? "%s0X%X" : "%s0x%x";
        n += sprintf(out + n, fmt, first ? "" : ",", c); if (hi > c) { n += sprintf(out + n, style == 1 ? "-%d" : "-0x%x", hi); } first = 0; c = hi + 1; }
    return n;
}
static void c14_surface(Buf *b, const char *tag) {
    /* every command code with an empty body */
    tr_begin("surface tag=%s cmds=", tag); int off[0x1A0 - 0x11F], noff = 0;
    for (int cc = 0x11F; cc < 0x1A0; cc++) { if (cc == CC_Startup || cc == CC_Shutdown) { fprintf(g_tr, "%s%x:-", cc == 0x11F ? "" : ",", cc); continue; }
        cmd_begin(b, ST_NO_SESSIONS, cc); Rsp r = run(b); fprintf(g_tr, "%s%x:%x", cc == 0x11F ? "" : ",", cc, r.rc); if (r.rc == 0x143) off[noff++] = cc; }
    tr_end();
    /* the command lists started EXACTLY at a command that is off: it must not be the first entry (enumerations that start
       elsewhere step over it in another place of the code); and the totals the TPM reports against what it enumerates */
    tr_begin("capstart tag=%s list=", tag); int firstc = 1;
    for (int k = 0; k < noff; k++) for (uint32_t cap = 2; cap <= 4; cap++) { cmd_begin(b, ST_NO_SESSIONS, CC_GetCapability); b_u32(b, cap); b_u32(b, (uint32_t)off[k]); b_u32(b, 1); Rsp r = run(b);
        uint32_t first = 0; if (r.rc == 0 && r.len >= 23 && g32(r.p + 15) >= 1) first = g32(r.p + 19) & 0xffff;
        fprintf(g_tr, "%s%u:%x:%x", firstc ? "" : ",", cap, off[k], first); firstc = 0; }
    tr_end();
    /* capability lists */
    static const uint32_t caps[3] = {2 /* COMMANDS */, 0 /* ALGS */, 8 /* ECC_CURVES */};
    for (int k = 0; k < 3; k++) { uint32_t next = caps[k] == 2 ? 0x11F : 0; tr_begin("caplist tag=%s cap=%u list=", tag, caps[k]); int first = 1;
        for (int rounds = 0; rounds < 20; rounds++) { cmd_begin(b, ST_NO_SESSIONS, CC_GetCapability); b_u32(b, caps[k]); b_u32(b, next); b_u32(b, 64); Rsp r = run(b);
            if (r.rc != 0 || r.len < 19) { fprintf(g_tr, "%serr%x", first ? "" : ",", r.rc); break; }
            int more = r.p[10]; uint32_t cnt = g32(r.p + 15); const uint8_t *q = r.p + 19; uint32_t last = 0;
            for (uint32_t i = 0; i < cnt; i++) { if (caps[k] == 2) { last = g32(q) & 0xffff; q += 4; } else if (caps[k] == 0) { last = g16(q); q += 6; } else { last = g16(q); q += 2; } fprintf(g_tr, "%s%u", first ? "" : ",", last); first = 0; }
            if (!more || cnt == 0) break; next = last + 1; }
        tr_end(); }
    { uint32_t v[2] = {0, 0}; for (int k = 0; k < 2; k++) { cmd_begin(b, ST_NO_SESSIONS, CC_GetCapability); b_u32(b, 6); b_u32(b, 0x129 + k); b_u32(b, 1); Rsp r = run(b); if (r.rc == 0 && r.len >= 27) v[k] = g32(r.p + 23); }
      tr("totals tag=%s total=%u library=%u", tag, v[0], v[1]); }
    /* TestParms: RSA key sizes */
    tr_begin("testparms tag=%s rsa=", tag);
    static const int bits[4] = {1024, 2048, 3072, 4096};
    for (int i = 0; i < 4; i++) { cmd_begin(b, ST_NO_SESSIONS, 0x18A /* TestParms */); b_u16(b, 0x0001); b_u16(b, ALG_NULL); b_u16(b, ALG_NULL); b_u16(b, bits[i]); b_u32(b, 0); Rsp r = run(b);
        fprintf(g_tr, "%s%d:%x", i ? "," : "", bits[i], r.rc); }
    tr_end();
    /* algorithms, curves, key sizes, modes and schemes where they appear inside a command: TPM2_Hash and TPM2_TestParms */
    tr_begin("parms tag=%s list=", tag); int firstp = 1;
    #define C14_PUT(fmt, a1, a2) do { b_put32(b, 2, (uint32_t)b->n); Rsp r_ = run(b); fprintf(g_tr, "%s" fmt ":%x", firstp ? "" : ",", a1, a2, r_.rc); firstp = 0; } while (0)
    static const uint16_t hs[4] = {ALG_SHA1, ALG_SHA256, ALG_SHA384, ALG_SHA512};
    for (int i = 0; i < 4; i++) { cmd_begin(b, ST_NO_SESSIONS, CC_Hash); b_2b(b, "abc", 3); b_u16(b, hs[i]); b_u32(b, RH_NULL); C14_PUT("h%u_%u", hs[i], 0); }
    static const uint16_t curves[8] = {1, 2, 3, 4, 5, 0x10, 0x11, 0x20};
    for (int i = 0; i < 8; i++) { cmd_begin(b, ST_NO_SESSIONS, 0x18A); b_u16(b, ALG_ECC); b_u16(b, ALG_NULL); b_u16(b, ALG_NULL); b_u16(b, curves[i]); b_u16(b, ALG_NULL); C14_PUT("c%u_%u", curves[i], 0); }
    static const uint16_t syms[8][2] = {{ALG_AES, 128}, {ALG_AES, 192}, {ALG_AES, 256}, {0x26, 128}, {0x26, 192}, {0x26, 256}, {0x03, 128}, {0x03, 192}};
    for (int i = 0; i < 8; i++) { cmd_begin(b, ST_NO_SESSIONS, 0x18A); b_u16(b, ALG_SYMCIPHER); b_u16(b, syms[i][0]); b_u16(b, syms[i][1]); b_u16(b, ALG_CFB); C14_PUT("s%u_%u", syms[i][0], syms[i][1]); }
    for (int m = 0x40; m <= 0x44; m++) { cmd_begin(b, ST_NO_SESSIONS, 0x18A); b_u16(b, ALG_SYMCIPHER); b_u16(b, ALG_AES); b_u16(b, 256); b_u16(b, m); C14_PUT("m%u_%u", m, 0); }
    for (int i = 0; i < 4; i++) { cmd_begin(b, ST_NO_SESSIONS, 0x18A); b_u16(b, ALG_KEYEDHASH); b_u16(b, ALG_HMAC); b_u16(b, hs[i]); C14_PUT("k%u_%u", hs[i], 0); }
    static const uint16_t rs[4] = {ALG_RSASSA, 0x15 /* RSAES */, ALG_RSAPSS, ALG_OAEP};
    for (int i = 0; i < 4; i++) { cmd_begin(b, ST_NO_SESSIONS, 0x18A); b_u16(b, ALG_RSA); b_u16(b, ALG_NULL); b_u16(b, rs[i]); if (rs[i] != 0x15) b_u16(b, ALG_SHA256); b_u16(b, 2048); b_u32(b, 0); C14_PUT("r%u_%u", rs[i], 0); }
    static const uint16_t es[5] = {ALG_ECDSA, 0x19 /* ECDH */, 0x1A /* ECDAA */, 0x1B /* SM2 */, 0x1C /* ECSCHNORR */};
    for (int i = 0; i < 5; i++) { cmd_begin(b, ST_NO_SESSIONS, 0x18A); b_u16(b, ALG_ECC); b_u16(b, ALG_NULL); b_u16(b, es[i]); b_u16(b, ALG_SHA384); if (es[i] == 0x1A) b_u16(b, 0); b_u16(b, 4); b_u16(b, ALG_NULL); C14_PUT("e%u_%u", es[i], 0); }
    tr_end();
}
static void c14_active(const char *tag) {
    char *js = TPMLIB_GetInfo(TPMLIB_INFO_ACTIVE_PROFILE); tr_begin("active tag=%s", tag); if (js) trhex("json", (uint8_t *)js, strlen(js)); tr_end(); free(js);
}

/* ---- what the profile's attributes enforce: six probe commands on keys that need no key generation ---- */
static int g_c14_attr_profile;
static uint32_t c14_probe_rc(Buf *b) { Rsp r = run(b); return r.rc; }
static void c14_attr_probes(Buf *b, const char *tag) {
    if (!g_c14_attr_profile) return;
    uint32_t p[7] = {0};
    /* RSA public key (LoadExternal, public part only) */
    { uint8_t n[256]; for (int i = 0; i < 256; i++) n[i] = (uint8_t)(i * 37 + 11); n[0] |= 0x80; n[255] |= 1;
      Buf pub = {0}; b_u16(&pub, ALG_RSA); b_u16(&pub, ALG_SHA256); b_u32(&pub, 0x00020040u); b_u16(&pub, 0); b_u16(&pub, ALG_NULL); b_u16(&pub, ALG_NULL); b_u16(&pub, 2048); b_u32(&pub, 0); b_2b(&pub, n, 256);
      cmd_begin(b, ST_NO_SESSIONS, CC_LoadExternal); b_u16(b, 0); b_2b(b, pub.p, pub.n); b_u32(b, RH_NULL); Rsp r = run(b); b_free(&pub);
      if (r.rc == 0) { uint32_t h = g32(r.p + 10); uint8_t m[32]; memset(m, 0x5a, 32);
          cmd_begin(b, ST_NO_SESSIONS, CC_RSA_Encrypt); b_u32(b, h); b_2b(b, m, 32); b_u16(b, ALG_NULL); b_u16(b, 0); p[1] = c14_probe_rc(b);
          cmd_begin(b, ST_NO_SESSIONS, CC_FlushContext); b_u32(b, h); run(b); } else p[1] = 0xEEEE0000u | r.rc; }
    /* ECC P-256 key with a known private scalar */
    { uint8_t d[32], qx[32], qy[32]; for (int i = 0; i < 32; i++) d[i] = (uint8_t)(i + 3); c13_kG(&C13_CURVES[2], d, qx, qy);
      Buf pub = {0}, sens = {0}; b_u16(&pub, ALG_ECC); b_u16(&pub, ALG_SHA256); b_u32(&pub, 0x00040440u); b_u16(&pub, 0); b_u16(&pub, ALG_NULL); b_u16(&pub, ALG_NULL); b_u16(&pub, 3); b_u16(&pub, ALG_NULL); b_2b(&pub, qx, 32); b_2b(&pub, qy, 32);
      b_u16(&sens, ALG_ECC); b_u16(&sens, 0); b_u16(&sens, 0); b_2b(&sens, d, 32);
      cmd_begin(b, ST_NO_SESSIONS, CC_LoadExternal); b_2b(b, sens.p, sens.n); b_2b(b, pub.p, pub.n); b_u32(b, RH_NULL); Rsp r = run(b); b_free(&pub); b_free(&sens);
      if (r.rc == 0) { uint32_t h = g32(r.p + 10); uint8_t dg[20]; memset(dg, 0x33, 20); uint8_t rs[32]; memset(rs, 0x44, 32);
          cmd_begin(b, ST_SESSIONS, CC_Sign); b_u32(b, h); auth_pw(b, "", 0); b_2b(b, dg, 20); b_u16(b, ALG_ECDSA); b_u16(b, ALG_SHA1); b_u16(b, 0x8024); b_u32(b, RH_NULL); b_u16(b, 0); p[2] = c14_probe_rc(b);
          cmd_begin(b, ST_NO_SESSIONS, CC_VerifySignature); b_u32(b, h); b_2b(b, dg, 20); b_u16(b, ALG_ECDSA); b_u16(b, ALG_SHA1); b_2b(b, rs, 32); b_2b(b, rs, 32); p[3] = c14_probe_rc(b);
          cmd_begin(b, ST_NO_SESSIONS, CC_FlushContext); b_u32(b, h); run(b); } else p[2] = p[3] = 0xEEEE0000u | r.rc; }
    /* HMAC key (a primary of the NULL hierarchy, scheme left open) */
    { Buf t = {0}; b_u16(&t, ALG_KEYEDHASH); b_u16(&t, ALG_SHA256); b_u32(&t, 0x00060472u); b_u16(&t, 0); b_u16(&t, ALG_NULL); b_u16(&t, 0);   /* sign and decrypt: the scheme stays open */
      cmd_begin(b, ST_SESSIONS, CC_CreatePrimary); b_u32(b, RH_NULL); auth_pw(b, "", 0); b_u16(b, 4); b_u16(b, 0); b_u16(b, 0); b_2b(b, t.p, t.n); b_u16(b, 0); b_u32(b, 0); b_free(&t);
      Rsp r = run(b);
      if (r.rc == 0) { uint32_t h = g32(r.p + 10); uint8_t dg[20]; memset(dg, 0x33, 20);
          cmd_begin(b, ST_SESSIONS, CC_Sign); b_u32(b, h); auth_pw(b, "", 0); b_2b(b, dg, 20); b_u16(b, ALG_HMAC); b_u16(b, ALG_SHA1); b_u16(b, 0x8024); b_u32(b, RH_NULL); b_u16(b, 0); p[4] = c14_probe_rc(b);
          cmd_begin(b, ST_NO_SESSIONS, CC_VerifySignature); b_u32(b, h); b_2b(b, dg, 20); b_u16(b, ALG_HMAC); b_u16(b, ALG_SHA1); b_bytes(b, dg, 20); p[5] = c14_probe_rc(b);
          cmd_begin(b, ST_NO_SESSIONS, CC_FlushContext); b_u32(b, h); run(b); } else p[4] = p[5] = 0xEEEE0000u | r.rc; }
    cmd_begin(b, ST_NO_SESSIONS, 0x18E /* EC_Ephemeral */); b_u16(b, 3); p[6] = c14_probe_rc(b);
    tr("attrprobe tag=%s p1=%u p2=%u p3=%u p4=%u p5=%u p6=%u", tag, p[1], p[2], p[3], p[4], p[5], p[6]);
}
static void scen_c14(int histories) {
    Buf b = {0}; TPMLIB_Terminate(); TPMLIB_ChooseTPMVersion(TPMLIB_TPM_VERSION_2); c14_learn();
    /* baseline: what the library implements at all (null profile) */
    { storage_reset(); TPMLIB_ChooseTPMVersion(TPMLIB_TPM_VERSION_1_2); TPMLIB_ChooseTPMVersion(TPMLIB_TPM_VERSION_2); TPMLIB_RegisterCallbacks(&g_cbs);
      TPMLIB_SetProfile(PROFILE_DEFAULT_V1); if (TPMLIB_MainInit() == TPM_SUCCESS) { tpm2_startup(&b, 0); c14_surface(&b, "baseline"); } }
    for (int h = 0; h < histories; h++) {
        tr("hist %d", h);
        TPMLIB_Terminate(); storage_reset(); TPMLIB_ChooseTPMVersion(TPMLIB_TPM_VERSION_1_2); TPMLIB_ChooseTPMVersion(TPMLIB_TPM_VERSION_2); TPMLIB_RegisterCallbacks(&g_cbs);
        char prof[8192]; int n = 0; int variant = rnd(20); g_c14_attr_profile = 0;
        if (h % 20 == 9) {   /* scripted: every item of a level-2 profile plus ONE item that needs a higher StateFormatLevel than the one named */
            static const char *C = "0x11f-0x122,0x124,0x126-0x129,0x12b-0x12e,0x130-0x132,0x135,0x137,0x139-0x140,0x142-0x14b,0x14d-0x14e,0x150-0x151,0x153-0x158,0x15b-0x15c,0x160-0x165,0x167-0x16e,0x170,0x172-0x174,0x176-0x178,0x17a-0x182,0x184-0x186,0x188-0x190,0x192,0x197";
            static const char *A = "rsa,rsa-min-size=1024,tdes,tdes-min-size=128,sha1,hmac,aes,aes-min-size=256,mgf1,keyedhash,xor,sha256,sha384,sha512,null,rsassa,rsaes,rsapss,oaep,ecdsa,ecdh,ecdaa,sm2,ecschnorr,ecmqv,kdf1-sp800-56a,kdf2,kdf1-sp800-108,ecc,ecc-min-size=192,ecc-nist,ecc-bn,ecc-sm2-p256,symcipher,camellia,cmac,ctr,ofb,cbc,cfb,ecb";
            int lvl = 2 + rnd(7), extra = rnd(5); if (h == 9) { extra = 2; lvl = 2 + rnd(5); }
            n = sprintf(prof, "{\"Name\":\"custom:s%d\",\"StateFormatLevel\":%d,\"Commands\":\"%s%s\",\"Algorithms\":\"%s%s\"%s}", h, lvl, C, extra == 1 ? ",0x19b" : "",
                        A, extra == 2 ? ",hmac-min-key-size=128" : extra == 3 ? ",camellia-min-size=128" : "", extra == 4 ? ",\"Attributes\":\"no-sha1-hmac\"" : "");
        }
        else if (h % 7 == 5) n = sprintf(prof, "%s", PROFILE_NULL);
        else if (h % 7 == 6) n = sprintf(prof, "%s", PROFILE_DEFAULT_V1);
        else if (h % 3 == 1) {   /* attributes: every command and algorithm stays on so that the probes reach the attribute checks */
            static const char *AT[] = {"no-unpadded-encryption", "no-sha1-signing", "no-sha1-verification", "no-sha1-hmac-creation", "no-sha1-hmac-verification", "no-sha1-hmac", "fips-host", "drbg-continous-test", "pct", "no-ecc-key-derivation"};
            n += sprintf(prof + n, "{\"Name\":\"custom:a%d\"", h);
            if (chance(35)) n += sprintf(prof + n, ",\"StateFormatLevel\":%d", chance(75) ? 7 + rnd(2) : 2 + rnd(8));
            n += sprintf(prof + n, ",\"Attributes\":\""); int na = rnd(5), firsta = 1;
            for (int q = 0; q < na; q++) { n += sprintf(prof + n, "%s%s", firsta ? "" : ",", AT[rnd(10)]); firsta = 0; }
            if (variant == 8) n += sprintf(prof + n, "%sno-such-attribute", firsta ? "" : ",");
            if (variant == 10) n += sprintf(prof + n, "%s", firsta ? "," : ",,pct");             /* empty item */
            if (variant == 11 && !firsta) n += sprintf(prof + n, " ");                            /* trailing blank */
            n += sprintf(prof + n, "\"}");
            g_c14_attr_profile = 1;
        }
        else {
            n += sprintf(prof + n, "{\"Name\":\"custom:h%d\"", h);
            if (chance(45)) n += sprintf(prof + n, ",\"StateFormatLevel\":%d", chance(70) ? 2 + rnd(6) : rnd(10));
            /* commands */
            if (chance(85)) { uint8_t en[0x1A0]; memcpy(en, c14_impl_cmd, sizeof en); int drops = chance(25) ? 0 : 1 + rnd(25);
                for (int d = 0; d < drops; d++) { int cc = 0x11F + rnd(0x81); if (c14_candisable_cmd[cc] || chance(4)) en[cc] = 0; }
                if (chance(40)) { en[0x199] = en[0x19a] = en[0x19b] = en[0x19c] = 0; }      /* the commands that need newer StateFormatLevels */
                if (variant == 1) en[0x123] = 1;                                             /* an unimplemented command */
                n += sprintf(prof + n, ",\"Commands\":\""); n += c14_print_cmds(prof + n, en, chance(85) ? 0 : 1 + rnd(2));
                if (variant == 2) n += sprintf(prof + n, ",0x1f0");                           /* outside the table */
                if (variant == 3) n += sprintf(prof + n, ",0x17a-");                          /* malformed range */
                if (variant == 4) n += sprintf(prof + n, ",abc");
                n += sprintf(prof + n, "\""); }
            /* algorithms */
            if (chance(85)) { n += sprintf(prof + n, ",\"Algorithms\":\""); int first = 1;
                int rsamin = (int[]){1024, 1024, 2048, 3072}[rnd(4)], eccmin = (int[]){192, 192, 224, 256, 384, 521}[rnd(6)], aesmin = (int[]){128, 128, 192, 256}[rnd(4)];
                for (int a = 0; a < C14_NALGS; a++) { int keep = a < 37 ? !chance(12) : chance(15);
                    if (!keep) continue;
                    n += sprintf(prof + n, "%s%s", first ? "" : ",", C14_ALGS[a]); first = 0;
                    if (!strcmp(C14_ALGS[a], "rsa") && chance(80)) n += sprintf(prof + n, ",rsa-min-size=%d", rsamin);
                    if (!strcmp(C14_ALGS[a], "ecc") && chance(80)) n += sprintf(prof + n, ",ecc-min-size=%d", eccmin);
                    if (!strcmp(C14_ALGS[a], "aes") && chance(80)) n += sprintf(prof + n, ",aes-min-size=%d", aesmin);
                    if (!strcmp(C14_ALGS[a], "tdes") && chance(60)) n += sprintf(prof + n, ",tdes-min-size=128");
                    if (!strcmp(C14_ALGS[a], "camellia") && chance(60)) n += sprintf(prof + n, ",camellia-min-size=128");
                    if (!strcmp(C14_ALGS[a], "hmac") && chance(25)) n += sprintf(prof + n, ",hmac-min-key-size=%d", (int[]){0, 112, 128, 256}[rnd(4)]); }
                if (variant == 5) n += sprintf(prof + n, ",sha7");                            /* unknown algorithm */
                if (variant == 6) n += sprintf(prof + n, ",rsa-min-size=12x");
                n += sprintf(prof + n, "\""); }
            if (variant == 7) n += sprintf(prof + n, ",\"Frobnicate\":\"yes\"");              /* unknown key */
            if (variant == 8) n += sprintf(prof + n, ",\"Attributes\":\"no-such-attribute\"");
            n += sprintf(prof + n, "}");
            if (variant == 9) prof[n - 1] = 0;                                                /* not JSON */
        }
        TPM_RESULT sr = TPMLIB_SetProfile(prof);
        tr_begin("setprofile variant=%d ret=%u", variant, sr); trhex("json", (uint8_t *)prof, strlen(prof)); tr_end();
        if (sr != TPM_SUCCESS) continue;
        TPM_RESULT mi = TPMLIB_MainInit(); tr("maininit ret=%u", mi); if (mi != TPM_SUCCESS) continue;
        tpm2_startup(&b, 0);
        c14_active("first"); c14_surface(&b, "first"); c14_attr_probes(&b, "first");
        /* the profile travels with the state */
        if (chance(60)) { TPM_RESULT r = tpm2_powercycle(); tpm2_startup(&b, 0); tr("restart ret=%u", r); c14_active("restart"); if (chance(40)) c14_surface(&b, "restart"); c14_attr_probes(&b, "restart"); }
        if (chance(60)) { TPM_RESULT r = tpm2_suspend_resume(NULL, NULL); tr("resume ret=%u", r); c14_active("resume"); if (chance(40)) c14_surface(&b, "resume"); c14_attr_probes(&b, "resume"); }
        /* a later SetProfile does not alter an existing TPM */
        { TPMLIB_Terminate(); TPM_RESULT r1 = TPMLIB_SetProfile(h % 2 ? PROFILE_NULL : "{\"Name\":\"custom:other\",\"Algorithms\":\"rsa,rsa-min-size=3072,hmac,aes,aes-min-size=256,mgf1,keyedhash,xor,sha256,sha384,null,oaep,ecdsa,ecdh,kdf1-sp800-56a,kdf2,kdf1-sp800-108,ecc,ecc-min-size=384,ecc-nist-p256,ecc-nist-p384,symcipher,cfb\"}");
          TPM_RESULT r2 = TPMLIB_MainInit(); tpm2_startup(&b, 0); tr("laterprofile setprofile=%u maininit=%u", r1, r2); c14_active("later"); c14_surface(&b, "later"); c14_attr_probes(&b, "later"); }
        /* the reported ActiveProfile is accepted and reproduces the surface */
        { char *js = TPMLIB_GetInfo(TPMLIB_INFO_ACTIVE_PROFILE); char *inner = js ? strchr(js + 1, '{') : NULL;
          if (inner) { char *copy = strdup(inner); size_t l = strlen(copy); if (l && copy[l - 1] == '}') copy[l - 1] = 0;   /* strip the outer closing brace */
              TPMLIB_Terminate(); storage_reset(); TPMLIB_ChooseTPMVersion(TPMLIB_TPM_VERSION_1_2); TPMLIB_ChooseTPMVersion(TPMLIB_TPM_VERSION_2); TPMLIB_RegisterCallbacks(&g_cbs);
              TPM_RESULT r1 = TPMLIB_SetProfile(copy); TPM_RESULT r2 = r1 == TPM_SUCCESS ? TPMLIB_MainInit() : 1;
              tr("roundtrip setprofile=%u maininit=%u", r1, r2);
              if (r2 == TPM_SUCCESS) { tpm2_startup(&b, 0); c14_active("roundtrip"); c14_surface(&b, "roundtrip"); c14_attr_probes(&b, "roundtrip"); }
              free(copy); }
          free(js); }
    }
    TPMLIB_Terminate(); storage_reset(); b_free(&b);
}
