/* Accessors for TPM 2 internals that are not API-visible (DESIGN.md 3.2): compiled with the repo's own headers.
 * Only data is read/written; each use is traced by the harness. */
#define NV_C
#define SESSION_PROCESS_C
#define DA_C
#define OBJECT_C
#define PCR_C
#define SESSION_C
#include "Tpm.h"
#include <stdint.h>
uint64_t verif_get_contextCounter(void) { return gr.contextCounter; }
void verif_set_contextCounter(uint64_t v) { gr.contextCounter = v; }
unsigned verif_get_slotmask(void) { return s_ContextSlotMask; }
void verif_set_slotmask(unsigned m) { s_ContextSlotMask = (CONTEXT_SLOT)m; }
unsigned verif_get_contextArray(unsigned i) { return gr.contextArray[i]; }
uint32_t verif_get_failedTries(void) { return gp.failedTries; }
uint32_t verif_get_maxTries(void) { return gp.maxTries; }
int verif_get_lockOutAuthEnabled(void) { return gp.lockOutAuthEnabled; }
uint16_t verif_get_orderlyState(void) { return gp.orderlyState; }
int verif_get_daUsed(void) { return g_daUsed; }
/* C09: bytes used by the dynamic NV list (walk of the entry sizes, as NvGetEnd does) */
uint32_t verif_nv_used(void) {
    uint32_t addr = NV_USER_DYNAMIC, sz = 0; int guard = 0;
    for (;;) { NvRead(&sz, addr, sizeof sz); if (sz == 0 || addr + sz > NV_MEMORY_SIZE || ++guard > 100000) break; addr += sz; }
    return addr - NV_USER_DYNAMIC;
}
uint64_t verif_nv_maxcount(void) { return NvReadMaxCount(); }
/* A restart or resume normally happens in a NEW process: the library's global state starts from its load-time image and
 * only what MainInit reads from storage or SetState takes from the blobs comes back. The harness stays in one process,
 * so it records the load-time image of the library's globals once and puts it back where a new process would begin. */
#include "PlatformData.h"
#include <string.h>
#include <stdlib.h>
typedef struct { void *p; size_t n; void *img; } VSnap;
#define VS(x) { &(x), sizeof(x), NULL }
static VSnap verif_snaps[] = {
    VS(g_toTest), VS(g_exclusiveAuditSession), VS(g_time), VS(g_timeEpoch), VS(g_phEnable), VS(g_pcrReConfig), VS(g_DRTMHandle),
    VS(g_DrtmPreStartup), VS(g_StartupLocality3), VS(g_daUsed), VS(g_updateNV), VS(g_powerWasLost), VS(g_clearOrderly), VS(g_prevOrderlyState),
    VS(g_nvOk), VS(g_NvStatus), VS(gp), VS(go), VS(gc), VS(gr), VS(s_ContextSlotMask), VS(g_cryptoSelfTestState),
    VS(g_initialized), VS(s_sessionHandles), VS(s_attributes), VS(s_associatedHandles), VS(s_nonceCaller), VS(s_inputAuthValues), VS(s_usedSessions),
    VS(s_encryptSessionIndex), VS(s_decryptSessionIndex), VS(s_auditSessionIndex), VS(s_cpHashForCommandAudit), VS(s_DAPendingOnNV),
    VS(s_selfHealTimer), VS(s_lockoutTimer), VS(s_evictNvEnd), VS(s_indexOrderlyRam), VS(s_maxCounter), VS(s_cachedNvIndex), VS(s_cachedNvRef),
    VS(s_cachedNvRamRef), VS(s_objects), VS(s_pcrs), VS(s_sessions), VS(s_oldestSavedSession), VS(s_freeSessionSlots),
    VS(s_failFunction), VS(s_failLine), VS(s_failCode),
    /* platform data */
    VS(s_realTimePrevious), VS(s_lastSystemTime), VS(s_lastReportedTime), VS(s_tpmTime), VS(s_hostMonotonicAdjustTime), VS(s_suspendedElapsedTime),
    VS(s_timerReset), VS(s_timerStopped), VS(s_adjustRate), VS(s_NV), VS(s_NvIsAvailable), VS(s_NV_unrecoverable), VS(s_NV_recoverable), VS(s_powerLost),
};
void verif_snapshot_statics(void) {
    for (size_t i = 0; i < sizeof verif_snaps / sizeof verif_snaps[0]; i++) if (!verif_snaps[i].img) { verif_snaps[i].img = malloc(verif_snaps[i].n); memcpy(verif_snaps[i].img, verif_snaps[i].p, verif_snaps[i].n); }
}
void verif_new_process_statics(void) {
    for (size_t i = 0; i < sizeof verif_snaps / sizeof verif_snaps[0]; i++) if (verif_snaps[i].img) memcpy(verif_snaps[i].p, verif_snaps[i].img, verif_snaps[i].n);
    s_maxCounter = 0;
}
/* C11: the secrets a saved context is protected with (read only) */
int verif_get_proof(uint32_t hierarchy, uint8_t *out) { TPM2B_PROOF p; if (HierarchyGetProof(hierarchy, &p) != TPM_RC_SUCCESS) return -1; memcpy(out, p.t.buffer, p.t.size); return p.t.size; }
uint64_t verif_get_totalResetCount(void) { return gp.totalResetCount; }
uint32_t verif_get_clearCount(void) { return gr.clearCount; }
