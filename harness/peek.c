/* Accessors for TPM 2 internals that are not API-visible (DESIGN.md 3.2): compiled with the repo's own headers.
 * Only data is read/written; each use is traced by the harness. */
#define NV_C
#include "Tpm.h"
#include <stdint.h>
uint64_t verif_get_contextCounter(void) { return gr.contextCounter; }
void verif_set_contextCounter(uint64_t v) { gr.contextCounter = v; }
unsigned verif_get_slotmask(void) { return s_ContextSlotMask; }
void verif_set_slotmask(unsigned m) { s_ContextSlotMask = (CONTEXT_SLOT)m; }
unsigned verif_get_contextArray(unsigned i) { return gr.contextArray[i]; }
uint32_t verif_get_failedTries(void) { return gp.failedTries; }
uint32_t verif_get_maxTries(void) { return gp.maxTries; }
int verif_get_lockOutAuthEnabled(void) { return gp.lockOutAuthEnabled; }
uint16_t verif_get_orderlyState(void) { return gp.orderlyState; }
int verif_get_daUsed(void) { return g_daUsed; }
/* C09: bytes used by the dynamic NV list (walk of the entry sizes, as NvGetEnd does) */
uint32_t verif_nv_used(void) {
    uint32_t addr = NV_USER_DYNAMIC, sz = 0; int guard = 0;
    for (;;) { NvRead(&sz, addr, sizeof sz); if (sz == 0 || addr + sz > NV_MEMORY_SIZE || ++guard > 100000) break; addr += sz; }
    return addr - NV_USER_DYNAMIC;
}
uint64_t verif_nv_maxcount(void) { return NvReadMaxCount(); }
/* a power cycle starts a new process: library statics that are not re-read from storage start from zero */
void verif_new_process_statics(void) { s_maxCounter = 0; }
/* C11: the secrets a saved context is protected with (read only) */
int verif_get_proof(uint32_t hierarchy, uint8_t *out) { TPM2B_PROOF p; if (HierarchyGetProof(hierarchy, &p) != TPM_RC_SUCCESS) return -1; memcpy(out, p.t.buffer, p.t.size); return p.t.size; }
uint64_t verif_get_totalResetCount(void) { return gp.totalResetCount; }
uint32_t verif_get_clearCount(void) { return gr.clearCount; }
