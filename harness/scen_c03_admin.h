/* C03, administrative state: hierarchy authValues and policies, disableClear, enables, seeds and proofs, audit and
   physical-presence configuration under random commands, with restarts of every kind in between. Every command's return
   code and every observation is predicted by Model.Admin; after a cut the model's persistent part must be what is there. */
static const uint32_t C03A_H[4] = {RH_OWNER, RH_ENDORSEMENT, RH_PLATFORM, RH_LOCKOUT};
typedef struct { char auth[4][12]; uint32_t sess; } C03A;

static void c03a_pw(Buf *b, const char *pw) { auth_pw(b, pw, strlen(pw)); }
static void c03a_trccs(const char *key, const uint32_t *ccs, int n) { fprintf(g_tr, " %s=", key); if (!n) fputc('-', g_tr); for (int i = 0; i < n; i++) fprintf(g_tr, "%s%u", i ? "," : "", ccs[i]); }
static void c03a_caplist(Buf *b, uint32_t cap, const char *key) {
    cmd_begin(b, ST_NO_SESSIONS, CC_GetCapability); b_u32(b, cap); b_u32(b, 0x11f); b_u32(b, 250); Rsp r = run(b);
    fprintf(g_tr, " %s=", key);
    if (r.rc != 0 || r.len < 19) { fprintf(g_tr, "ERR%u", r.rc); return; }
    uint32_t cnt = g32(r.p + 15); if (!cnt) fputc('-', g_tr);
    for (uint32_t i = 0; i < cnt && 19 + 4 * i + 4 <= r.len; i++) fprintf(g_tr, "%s%u", i ? "," : "", g32(r.p + 19 + 4 * i) & 0xFFFF);
}
static uint32_t c03a_prop(Buf *b, uint32_t pt) {
    cmd_begin(b, ST_NO_SESSIONS, CC_GetCapability); b_u32(b, 6); b_u32(b, pt); b_u32(b, 1); Rsp r = run(b);
    return (r.rc == 0 && r.len >= 27 && g32(r.p + 19) == pt) ? g32(r.p + 23) : 0xFFFFFFFFu;
}
/* everything the model speaks about that a capability shows */
static void c03a_obs(Buf *b) {
    uint32_t perm = c03a_prop(b, 0x200), su = c03a_prop(b, 0x201);
    tr_begin("a op=obs perm=%u startup=%u", perm, su & 0xF);
    c03a_caplist(b, 4, "audit"); c03a_caplist(b, 3, "pp");
    cmd_begin(b, ST_NO_SESSIONS, CC_GetCapability); b_u32(b, 9); b_u32(b, RH_OWNER); b_u32(b, 16); Rsp r = run(b);
    fprintf(g_tr, " pol=");
    if (r.rc == 0 && r.len >= 19) { Rd rd = { r.p, r.len, 15, 0 }; uint32_t cnt = r_u32(&rd); int any = 0;
        for (uint32_t i = 0; i < cnt && !rd.err; i++) { uint32_t h = r_u32(&rd); uint16_t alg = r_u16(&rd); int dl = alg == ALG_SHA1 ? 20 : alg == ALG_SHA256 ? 32 : alg == ALG_SHA384 ? 48 : alg == ALG_SHA512 ? 64 : 0; const uint8_t *d = r_bytes(&rd, dl);
            int hi = h == RH_OWNER ? 0 : h == RH_ENDORSEMENT ? 1 : h == RH_PLATFORM ? 2 : h == RH_LOCKOUT ? 3 : -1; if (hi < 0 || rd.err) continue;
            fprintf(g_tr, "%s%d:%u:", any++ ? ";" : "", hi, alg); for (int k = 0; k < dl; k++) fprintf(g_tr, "%02x", d[k]); }
        if (!any) fputc('-', g_tr); }
    else fprintf(g_tr, "ERR%u", r.rc);
    tr_end();
}
/* is `pw` the authValue of hierarchy h?  A policy session takes it through PolicySecret. */
static void c03a_probe(Buf *b, C03A *a, int h, const char *pw) {
    if (!a->sess) { uint8_t nonce[16] = {0}; cmd_begin(b, ST_NO_SESSIONS, CC_StartAuthSession); b_u32(b, RH_NULL); b_u32(b, RH_NULL); b_2b(b, nonce, 16); b_u16(b, 0); b_u8(b, 1); b_u16(b, ALG_NULL); b_u16(b, ALG_SHA256);
        Rsp r = run(b); if (r.rc != 0) return; a->sess = g32(r.p + 10); }
    cmd_begin(b, ST_SESSIONS, CC_PolicySecret); b_u32(b, C03A_H[h]); b_u32(b, a->sess); c03a_pw(b, pw); b_u16(b, 0); b_u16(b, 0); b_u16(b, 0); b_u32(b, 0);
    Rsp r = run(b);
    tr_begin("a op=probe h=%d rc=%u", h, r.rc); trhex("pw", (const uint8_t *)pw, strlen(pw)); tr_end();
}
/* a primary from a fixed template: its Name follows the seed, the creation ticket the proof */
static void c03a_seed(Buf *b, C03A *a, int h) {
    Buf t = {0}; b_u16(&t, ALG_KEYEDHASH); b_u16(&t, ALG_SHA256); b_u32(&t, 0x00040472u); b_u16(&t, 0); b_u16(&t, ALG_HMAC); b_u16(&t, ALG_SHA256); b_u16(&t, 0);
    cmd_begin(b, ST_SESSIONS, CC_CreatePrimary); b_u32(b, C03A_H[h]); c03a_pw(b, a->auth[h]); b_u16(b, 4); b_u16(b, 0); b_u16(b, 0); b_2b(b, t.p, t.n); b_u16(b, 0); b_u32(b, 0); b_free(&t);
    Rsp r = run(b);
    tr_begin("a op=seed h=%d rc=%u", h, r.rc);
    if (r.rc == 0) { uint32_t oh = g32(r.p + 10); Rd rd = rsp_params(&r, 1); uint16_t l; r_2b(&rd, &l); r_2b(&rd, &l); r_2b(&rd, &l);
        r_u16(&rd); r_u32(&rd); const uint8_t *tk = r_2b(&rd, &l); uint8_t tkc[64]; int tl = l <= 64 ? l : 0; memcpy(tkc, tk, tl); const uint8_t *nm = r_2b(&rd, &l);
        if (!rd.err) { trhex("name", nm, l); trhex("ticket", tkc, tl); }
        cmd_begin(b, ST_NO_SESSIONS, CC_FlushContext); b_u32(b, oh); run(b); }
    tr_end();
}
static void c03a_restart(Buf *b, C03A *a) {
    int k = rnd(5); const char *kind; TPM_RESULT pr = 0; Rsp st = {0};
    if (k == 0) { pr = tpm2_powercycle(); st = tpm2_startup(b, 0); kind = "reset"; }
    else if (k == 1) { tpm2_shutdown(b, 0); pr = tpm2_powercycle(); st = tpm2_startup(b, 0); kind = "reset"; }
    else if (k == 2) { Rsp s = tpm2_shutdown(b, 1); pr = tpm2_powercycle(); st = tpm2_startup(b, 0); kind = s.rc == 0 ? "restart" : "reset"; }
    else if (k == 3) { Rsp s = tpm2_shutdown(b, 1); pr = tpm2_powercycle(); st = tpm2_startup(b, s.rc == 0 ? 1 : 0); kind = s.rc == 0 ? "resume" : "reset"; }
    else { pr = tpm2_suspend_resume(NULL, NULL); kind = "resume"; }
    tr("a op=restart kind=%s ret=%u rc=%u", kind, pr, st.rc);
    if (strcmp(kind, "resume")) a->auth[2][0] = 0;
    if (k != 4) a->sess = 0;   /* sessions do not survive a restart of the TPM... a resume through blobs keeps them */
    if (k == 3) a->sess = 0;
}
static void c03a_newauth(char *out) { int n = rnd(4); for (int i = 0; i < n; i++) out[i] = 'a' + rnd(26); out[n] = 0; }

static void c03_admin(Buf *b, int nops) {
    C03A a; memset(&a, 0, sizeof a);
    static const uint32_t AUD[] = {CC_NV_Write, CC_PCR_Extend, CC_GetRandom, CC_HierarchyChangeAuth, CC_ClockSet, CC_NV_Read, CC_StartAuthSession, 0x145 /* Shutdown */, 0x20000123 /* not a command */, CC_Clear};
    static const uint32_t PPC[] = {CC_Clear, CC_ChangeEPS, CC_ChangePPS, CC_PCR_Allocate, CC_HierarchyControl, CC_ClearControl, 0x12D /* PP_Commands */, CC_NV_Write, CC_HierarchyChangeAuth, CC_SetPrimaryPolicy};
    tr("a op=begin");
    c03a_obs(b);
    for (int i = 0; i < nops; i++) {
        int k = rnd(20); int pp = chance(70); g_pp = pp;
        char pw[12]; int ah;
        #define PICKPW(h) do { ah = (h); strcpy(pw, a.auth[ah]); if (ah != 3 && chance(6)) strcpy(pw, "zz"); } while (0)
        if (k < 3) { PICKPW(rnd(4)); char na[12]; memset(na, 0, sizeof na); c03a_newauth(na); int nal = strlen(na); if (chance(15)) nal += 1 + rnd(2);   /* trailing zeros are not part of an authValue */
            cmd_begin(b, ST_SESSIONS, CC_HierarchyChangeAuth); b_u32(b, C03A_H[ah]); c03a_pw(b, pw); b_2b(b, na, nal); Rsp r = run(b);
            tr_begin("a op=changeauth ah=%d pp=%d rc=%u", ah, pp, r.rc); trhex("pw", (uint8_t *)pw, strlen(pw)); trhex("new", (uint8_t *)na, nal); tr_end();
            if (r.rc == 0) strcpy(a.auth[ah], na); }
        else if (k < 5) { PICKPW(rnd(4)); uint8_t dg[48]; int alg = chance(25) ? ALG_NULL : chance(70) ? ALG_SHA256 : ALG_SHA384; int dl = alg == ALG_NULL ? 0 : alg == ALG_SHA256 ? 32 : 48; for (int q = 0; q < dl; q++) dg[q] = rnd(256);
            cmd_begin(b, ST_SESSIONS, CC_SetPrimaryPolicy); b_u32(b, C03A_H[ah]); c03a_pw(b, pw); b_2b(b, dg, dl); b_u16(b, alg); Rsp r = run(b);
            tr_begin("a op=setpolicy ah=%d pp=%d alg=%u rc=%u", ah, pp, alg, r.rc); trhex("pw", (uint8_t *)pw, strlen(pw)); trhex("digest", dg, dl); tr_end(); }
        else if (k < 7) { PICKPW(chance(50) ? 2 : 3); int dis = rnd(2);
            cmd_begin(b, ST_SESSIONS, CC_ClearControl); b_u32(b, C03A_H[ah]); c03a_pw(b, pw); b_u8(b, dis); Rsp r = run(b);
            tr_begin("a op=clearcontrol ah=%d pp=%d disable=%d rc=%u", ah, pp, dis, r.rc); trhex("pw", (uint8_t *)pw, strlen(pw)); tr_end(); }
        else if (k == 7) { PICKPW(chance(50) ? 2 : 3);
            cmd_begin(b, ST_SESSIONS, CC_Clear); b_u32(b, C03A_H[ah]); c03a_pw(b, pw); Rsp r = run(b);
            tr_begin("a op=clear ah=%d pp=%d rc=%u", ah, pp, r.rc); trhex("pw", (uint8_t *)pw, strlen(pw)); tr_end();
            if (r.rc == 0) { a.auth[0][0] = a.auth[1][0] = a.auth[3][0] = 0; } }
        else if (k == 8) { PICKPW(2); int eps = rnd(2);
            cmd_begin(b, ST_SESSIONS, eps ? CC_ChangeEPS : CC_ChangePPS); b_u32(b, RH_PLATFORM); c03a_pw(b, pw); Rsp r = run(b);
            tr_begin("a op=%s ah=2 pp=%d rc=%u", eps ? "changeeps" : "changepps", pp, r.rc); trhex("pw", (uint8_t *)pw, strlen(pw)); tr_end();
            if (r.rc == 0 && eps) a.auth[1][0] = 0; }
        else if (k < 12) { int en = rnd(3); int state = chance(55); int who = chance(60) ? 2 : (en == 2 ? rnd(2) : en); PICKPW(who);
            cmd_begin(b, ST_SESSIONS, CC_HierarchyControl); b_u32(b, C03A_H[ah]); c03a_pw(b, pw); b_u32(b, en == 0 ? RH_OWNER : en == 1 ? RH_ENDORSEMENT : 0x4000000Du); b_u8(b, state); Rsp r = run(b);
            tr_begin("a op=control ah=%d pp=%d en=%d state=%d rc=%u", ah, pp, en, state, r.rc); trhex("pw", (uint8_t *)pw, strlen(pw)); tr_end(); }
        else if (k < 14) { PICKPW(chance(70) ? 0 : 2); int chg = chance(20); int alg = chg ? (chance(50) ? ALG_SHA1 : chance(50) ? ALG_SHA384 : ALG_SHA256) : (chance(80) ? ALG_NULL : ALG_SHA256);
            uint32_t set[3], clr[3]; int ns = chance(chg ? 10 : 90) ? rnd(3) : 0, nc = chance(chg ? 10 : 70) ? rnd(3) : 0; for (int q = 0; q < ns; q++) set[q] = AUD[rnd(10)]; for (int q = 0; q < nc; q++) clr[q] = AUD[rnd(10)];
            cmd_begin(b, ST_SESSIONS, CC_SetCommandCodeAuditStatus); b_u32(b, C03A_H[ah]); c03a_pw(b, pw); b_u16(b, alg); b_u32(b, ns); for (int q = 0; q < ns; q++) b_u32(b, set[q]); b_u32(b, nc); for (int q = 0; q < nc; q++) b_u32(b, clr[q]);
            Rsp r = run(b);
            tr_begin("a op=setaudit ah=%d pp=%d alg=%u rc=%u", ah, pp, alg, r.rc); trhex("pw", (uint8_t *)pw, strlen(pw)); c03a_trccs("set", set, ns); c03a_trccs("clear", clr, nc); tr_end(); }
        else if (k < 16) { PICKPW(2); uint32_t set[3], clr[3]; int ns = rnd(3), nc = rnd(3); for (int q = 0; q < ns; q++) set[q] = PPC[rnd(10)]; for (int q = 0; q < nc; q++) clr[q] = PPC[rnd(10)];
            cmd_begin(b, ST_SESSIONS, CC_PP_Commands); b_u32(b, RH_PLATFORM); c03a_pw(b, pw); b_u32(b, ns); for (int q = 0; q < ns; q++) b_u32(b, set[q]); b_u32(b, nc); for (int q = 0; q < nc; q++) b_u32(b, clr[q]);
            Rsp r = run(b);
            tr_begin("a op=ppcommands ah=2 pp=%d rc=%u", pp, r.rc); trhex("pw", (uint8_t *)pw, strlen(pw)); c03a_trccs("set", set, ns); c03a_trccs("clear", clr, nc); tr_end(); }
        else if (k < 18) c03a_restart(b, &a);
        else { int h = rnd(4); char pw2[12]; strcpy(pw2, a.auth[h]); if (h != 3 && chance(25)) strcpy(pw2, "qq"); g_pp = 0; c03a_probe(b, &a, h, pw2); }
        g_pp = 0;
        if (chance(40)) c03a_obs(b);
        if (chance(15)) c03a_seed(b, &a, rnd(3));
    }
    /* the closing cut: whatever was acknowledged is there afterwards */
    tpm2_powercycle(); Rsp st = tpm2_startup(b, 0); tr("a op=restart kind=reset ret=0 rc=%u", st.rc); a.auth[2][0] = 0; a.sess = 0;
    c03a_obs(b); for (int h = 0; h < 4; h++) c03a_probe(b, &a, h, a.auth[h]); for (int h = 0; h < 3; h++) c03a_seed(b, &a, h);
    if (a.sess) { cmd_begin(b, ST_NO_SESSIONS, CC_FlushContext); b_u32(b, a.sess); run(b); }
    tr("a op=end");
}
