/* C03 (acknowledged changes are durable), C05 (failed/cancelled commands leave no trace), C07 (storage faults) */

static int persist_getimg(Blob *out) {
    unsigned char *p = NULL; uint32_t n = 0;
    TPM_RESULT r = TPMLIB_GetState(TPMLIB_STATE_PERMANENT, &p, &n);
    if (r != TPM_SUCCESS) { free(p); return -1; }
    blob_set(out, p, n); free(p); return 0;
}
typedef struct { Blob perm, vol, st[3]; uint64_t mono, real, ent; World w; int valid; } Snap;
static int snap_take(Snap *s, World *w) {
    unsigned char *pb = NULL, *vb = NULL; uint32_t pl = 0, vl = 0;
    if (TPMLIB_GetState(TPMLIB_STATE_PERMANENT, &pb, &pl) || TPMLIB_GetState(TPMLIB_STATE_VOLATILE, &vb, &vl)) { free(pb); free(vb); return -1; }
    blob_set(&s->perm, pb, pl); blob_set(&s->vol, vb, vl); free(pb); free(vb);
    for (int i = 0; i < 3; i++) { if (g_store[i].present) blob_set(&s->st[i], g_store[i].p, g_store[i].n); else blob_clear(&s->st[i]); }
    s->mono = g_mono_ns; s->real = g_real_ns; s->ent = g_ent; c02_world_copy(&s->w, w); s->valid = 1;
    return 0;
}
/* back to the snapshot: terminate whatever runs, restore storage and clocks, resume from the blobs */
static TPM_RESULT snap_restore(Snap *s, World *w) {
    TPMLIB_Terminate(); faults_clear();
    for (int i = 0; i < 3; i++) { if (s->st[i].present) blob_set(&g_store[i], s->st[i].p, s->st[i].n); else blob_clear(&g_store[i]); }
    g_mono_ns = s->mono; g_real_ns = s->real;
    TPM_RESULT r = TPMLIB_SetState(TPMLIB_STATE_PERMANENT, s->perm.p, s->perm.n);
    if (!r) r = TPMLIB_SetState(TPMLIB_STATE_VOLATILE, s->vol.p, s->vol.n);
    if (!r) r = TPMLIB_MainInit();
    g_ent = s->ent;
    c02_world_free(w); c02_world_copy(w, &s->w);
    return r;
}
static void snap_free(Snap *s) { blob_clear(&s->perm); blob_clear(&s->vol); for (int i = 0; i < 3; i++) blob_clear(&s->st[i]); if (s->valid) c02_world_free(&s->w); s->valid = 0; }

/* ------------------------------- C03 ------------------------------- */
/* a failed authorization of a DA-protected NV index (twice: the first DA-protected use after Startup answers RETRY) */
static void c03_da_fail(World *w, Buf *b) {
    for (int i = 0; i < w->nnv; i++) if (!(w->nv[i].attrs & (1u << 25))) {
        for (int k = 0; k < 2; k++) { cmd_begin(b, ST_SESSIONS, CC_NV_Read); b_u32(b, w->nv[i].idx); b_u32(b, w->nv[i].idx); auth_pw_s(b, "bad!"); b_u16(b, 1); b_u16(b, 0); w_run(w, b); }
        return;
    }
}
/* value a brand-new NV counter takes (defines, increments, reads and deletes a probe index) */
static uint64_t c03_counter_probe(World *w, Buf *b) {
    uint64_t v = 0;
    cmd_begin(b, ST_SESSIONS, CC_NV_DefineSpace); b_u32(b, RH_OWNER); auth_pw_s(b, w->ownerAuth);
    b_u16(b, 0); b_u16(b, 14); b_u32(b, 0x014000FEu); b_u16(b, ALG_SHA256); b_u32(b, (1u << 1) | (1u << 17) | (1u << 4)); b_u16(b, 0); b_u16(b, 8);
    if (run(b).rc != 0) return 0;
    cmd_begin(b, ST_SESSIONS, CC_NV_Increment); b_u32(b, RH_OWNER); b_u32(b, 0x014000FEu); auth_pw_s(b, w->ownerAuth); run(b);
    cmd_begin(b, ST_SESSIONS, CC_NV_Read); b_u32(b, RH_OWNER); b_u32(b, 0x014000FEu); auth_pw_s(b, w->ownerAuth); b_u16(b, 8); b_u16(b, 0);
    Rsp r = run(b); if (r.rc == 0 && r.len >= 10 + 4 + 2 + 8) v = g64(r.p + 16);
    cmd_begin(b, ST_SESSIONS, CC_NV_UndefineSpace); b_u32(b, RH_OWNER); b_u32(b, 0x014000FEu); auth_pw_s(b, w->ownerAuth); run(b);
    return v;
}
static void c03_cut(World *w, Buf *b, int pos, int variant) {
    Snap s; memset(&s, 0, sizeof s);
    if (snap_take(&s, w)) { tr("cut pos=%d snap=fail", pos); return; }
    uint8_t d1[32], d2[32]; Rsp sr = {0};
    int mode = variant == 0 ? 1 : (variant == 1 ? 2 : 3);
    w_enable_hierarchies(w, b);
    /* free the transient object slots so that persistent objects can be referenced (the snapshot is restored afterwards) */
    for (int i = 0; i < w->nobj; i++) { cmd_begin(b, ST_NO_SESSIONS, CC_FlushContext); b_u32(b, w->obj[i].h); run(b); }
    { /* and whatever transient object the client view lost track of */
      cmd_begin(b, ST_NO_SESSIONS, CC_GetCapability); b_u32(b, 1); b_u32(b, 0x80000000u); b_u32(b, 8); Rsp hr = run(b);
      if (hr.rc == 0 && hr.len >= 19) { uint32_t cnt = g32(hr.p + 15), hs[8]; if (cnt > 8) cnt = 8; for (uint32_t i = 0; i < cnt; i++) hs[i] = g32(hr.p + 19 + 4 * i);
          for (uint32_t i = 0; i < cnt; i++) { cmd_begin(b, ST_NO_SESSIONS, CC_FlushContext); b_u32(b, hs[i]); run(b); } } }
    for (int i = 0; i < w->nseq; i++) { cmd_begin(b, ST_NO_SESSIONS, CC_FlushContext); b_u32(b, w->seq[i].h); run(b); }
    for (int i = 0; i < w->nsess; i++) { cmd_begin(b, ST_NO_SESSIONS, CC_FlushContext); b_u32(b, w->sess[i].h); run(b); }   /* the battery needs a session slot */
    { cmd_begin(b, ST_NO_SESSIONS, CC_GetCapability); b_u32(b, 1); b_u32(b, 0x02000000u); b_u32(b, 8); Rsp hr = run(b);
      if (hr.rc == 0 && hr.len >= 19) { uint32_t cnt = g32(hr.p + 15), hs[8]; if (cnt > 8) cnt = 8; for (uint32_t i = 0; i < cnt; i++) hs[i] = g32(hr.p + 19 + 4 * i);
          for (uint32_t i = 0; i < cnt; i++) { cmd_begin(b, ST_NO_SESSIONS, CC_FlushContext); b_u32(b, hs[i]); run(b); } } }
    if (variant) { sr = tpm2_shutdown(b, variant == 1 ? 0 : 1);     /* 1: Shutdown(CLEAR)  2: Shutdown(STATE) */
        if (sr.rc != 0) { variant = 0; mode = 1; } }                 /* e.g. Shutdown(STATE) refused after PCR_Allocate: plain power cut */
    battery(w, b, mode, d1);
    /* what would a new counter start at?  (probe on the live TPM; the state is rolled back to before the probe) */
    uint64_t c1 = 0, c2 = 0;
    { Snap s2; memset(&s2, 0, sizeof s2);
      if (!variant && !snap_take(&s2, w)) { c1 = c03_counter_probe(w, b); if (snap_restore(&s2, w)) die("C03: probe rollback failed"); snap_free(&s2); } }
    TPM_RESULT mi = tpm2_powercycle();
    Rsp st = tpm2_startup(b, variant == 2 ? 1 : 0);
    World wr = *w; wr.nctx = 0; wr.nobj = 0; wr.nsess = 0; wr.nseq = 0;
    battery(&wr, b, mode, d2);
    if (!variant && st.rc == 0) c2 = c03_counter_probe(&wr, b);
    tr("cut pos=%d variant=%d shutdown_rc=%u maininit=%u startup_rc=%u equal=%d ctr_live=%llu ctr_restart=%llu", pos, variant, sr.rc, mi, st.rc, !memcmp(d1, d2, 32),
       (unsigned long long)c1, (unsigned long long)c2);
    /* an index that was deleted before the cut is gone for good: defined again (as an orderly index, whose data live in the
       orderly RAM and its NV copy) it must come up unwritten. The state is rolled back afterwards. */
    if (st.rc == 0) for (int k = 0; k < 24; k++) if (w->nv_gone >> k & 1) {
        uint32_t idx = 0x01400000u + k; int live = 0; for (int q = 0; q < wr.nnv; q++) if (wr.nv[q].idx == idx) live = 1;
        if (live) continue;
        cmd_begin(b, ST_SESSIONS, CC_NV_DefineSpace); b_u32(b, RH_OWNER); auth_pw_s(b, wr.ownerAuth); b_u16(b, 0); b_u16(b, 14); b_u32(b, idx); b_u16(b, ALG_SHA256);
        b_u32(b, (1u << 2) | (1u << 18) | (1u << 1) | (1u << 17) | (1u << 25) | (1u << 26)); b_u16(b, 0); b_u16(b, 8); Rsp dr = run(b);
        uint32_t rrc = 0, attrs = 0;
        if (dr.rc == 0) { cmd_begin(b, ST_SESSIONS, CC_NV_Read); b_u32(b, idx); b_u32(b, idx); auth_pw(b, "", 0); b_u16(b, 8); b_u16(b, 0); rrc = run(b).rc;
            cmd_begin(b, ST_NO_SESSIONS, CC_NV_ReadPublic); b_u32(b, idx); Rsp pr = run(b); if (pr.rc == 0 && pr.len >= 22) attrs = g32(pr.p + 18); }
        tr("reborn pos=%d handle=%u define_rc=%u read_rc=%u written=%d attrs=%u want=%u", pos, idx, dr.rc, rrc, (int)(attrs >> 29 & 1), attrs, (1u << 2) | (1u << 18) | (1u << 1) | (1u << 17) | (1u << 25) | (1u << 26));
    }
    TPM_RESULT rr = snap_restore(&s, w);
    if (rr) die("C03: cannot resume from own snapshot: %u", rr);
    snap_free(&s);
}
#include "scen_c03_admin.h"
static void scen_c03(int histories, int maxops, int cut_pct) {
    g_gen_host_rng_ok = 1;
    Buf b = {0}; World w; memset(&w, 0, sizeof w);
    Blob img0 = {0}, img1 = {0};
    for (int h = 0; h < histories; h++) {
        tr("hist %d", h); w_reset(&w);
        g_mono_ns = (1 + rnd(100000)) * 1000000ULL;
        tpm2_fresh(h % 3 == 0 ? NULL : (h % 3 == 1 ? PROFILE_DEFAULT_V1 : PROFILE_CUSTOM)); tpm2_startup(&b, 0);
        tr("fresh profile=%d", h % 3);
        int n = 8 + rnd(maxops);
        for (int i = 0; i < n; i++) {
            if (chance(40)) clock_advance_ms((uint64_t[]){10, 999, 4096, 60000, 3600000, 2000000, 20000000}[rnd(7)]);
            if (chance(10)) c03_da_fail(&w, &b);
            persist_getimg(&img0);
            long ops0 = w.ops;
            gen_op(&w, &b);
            if (w.ops == ops0) continue;
            persist_getimg(&img1);
            int changed = perm_equal_masked(img0.p, img0.n, img1.p, img1.n);
            int eq = g_store[ST_PERM].present ? perm_equal_masked(img1.p, img1.n, g_store[ST_PERM].p, g_store[ST_PERM].n) : -2;
            int exact = g_store[ST_PERM].present && img1.n == g_store[ST_PERM].n && !memcmp(img1.p, g_store[ST_PERM].p, img1.n);
            tr("c cc=%x rc=%u stores=%ld changed=%d eq=%d exact=%d", w.last_cc, w.last_rc, w.last_stores, changed == 0 ? 1 : (changed == 1 ? 0 : -1), eq, exact);
            /* commands that change seeds, proofs, enables, audit or PP configuration keep a copy in RAM and one in NV memory: only
               a restart shows whether the NV copy was updated, so a cut mostly follows them at once */
            int admin = w.last_rc == 0 && (w.last_cc == CC_Clear || w.last_cc == CC_ChangeEPS || w.last_cc == CC_ChangePPS || w.last_cc == CC_HierarchyControl ||
                        w.last_cc == CC_SetCommandCodeAuditStatus || w.last_cc == CC_PP_Commands || w.last_cc == CC_SetPrimaryPolicy || w.last_cc == CC_ClearControl ||
                        w.last_cc == CC_HierarchyChangeAuth || w.last_cc == CC_DictionaryAttackParameters || w.last_cc == CC_NV_UndefineSpace);
            if (chance(admin ? 70 : cut_pct)) c03_cut(&w, &b, i, admin && chance(70) ? 0 : rnd(3));
        }
        c03_cut(&w, &b, n, 0);
        /* the administrative state under its own model (a fresh TPM: the model starts from the manufactured state) */
        if (h % 3 != 0) { tpm2_fresh(h % 3 == 0 ? NULL : (h % 3 == 1 ? PROFILE_DEFAULT_V1 : PROFILE_CUSTOM)); tpm2_startup(&b, 0); w_reset(&w); c03_admin(&b, 30 + rnd(40)); continue; }
        /* drill: a counter is incremented and then deleted; its high-water mark must survive the power cut that follows */
        if (h % 2 == 0) {
            cmd_begin(&b, ST_SESSIONS, CC_NV_DefineSpace); b_u32(&b, RH_OWNER); auth_pw_s(&b, w.ownerAuth);
            b_u16(&b, 0); b_u16(&b, 14); b_u32(&b, 0x014000FDu); b_u16(&b, ALG_SHA256); b_u32(&b, (1u << 1) | (1u << 17) | (1u << 4)); b_u16(&b, 0); b_u16(&b, 8);
            if (run(&b).rc == 0) {
                int k = 2 + rnd(6);
                for (int q = 0; q < k; q++) { cmd_begin(&b, ST_SESSIONS, CC_NV_Increment); b_u32(&b, RH_OWNER); b_u32(&b, 0x014000FDu); auth_pw_s(&b, w.ownerAuth); run(&b); }
                cmd_begin(&b, ST_SESSIONS, CC_NV_UndefineSpace); b_u32(&b, RH_OWNER); b_u32(&b, 0x014000FDu); auth_pw_s(&b, w.ownerAuth); run(&b);
                if (chance(50)) { cmd_begin(&b, ST_NO_SESSIONS, CC_GetRandom); b_u16(&b, 4); run(&b); }
                c03_cut(&w, &b, n + 1, 0);
            }
        }
    }
    blob_clear(&img0); blob_clear(&img1); w_reset(&w); b_free(&b);
}

/* ------------------------------- C05 ------------------------------- */
static int c05_is_da_rc(uint32_t rc) { uint32_t base = rc & 0xBF; return rc == RC_LOCKOUT || rc == RC_RETRY || base == 0x8E || base == 0xA2 || rc == 0x98E || rc == 0x9A2; }

/* mutate one field of the last valid command and send it; record whether it left a trace */
static void c05_fail_probe(World *w, Buf *b, Buf *last) {
    if (last->n < 10) return;
    Buf m = {0}; b_bytes(&m, last->p, last->n);
    int kind = rnd(8);
    switch (kind) {
    case 0: m.p[10 + rnd(m.n - 10 ? m.n - 10 : 1) % (m.n > 10 ? m.n - 10 : 1)] ^= 1 << rnd(8); break;       /* bit flip after the header */
    case 1: if (m.n > 11) m.n -= 1 + rnd(m.n - 11); break;                                                  /* truncate */
    case 2: b_u8(&m, rnd(256)); break;                                                                      /* one extra byte */
    case 3: if (m.n >= 14) { m.p[10] ^= 0x01; } break;                                                      /* first handle type/hi byte */
    case 4: if (m.n >= 14) { m.p[13] ^= 1 << rnd(3); } break;                                               /* first handle low bits */
    case 5: if (m.n > 16) { size_t o = 10 + rnd(m.n - 10); m.p[o] = 0xff; } break;
    case 6: if (m.n > 16) { size_t o = 10 + rnd(m.n - 11); m.p[o] = 0; m.p[o + 1] = 0; } break;
    default: if (g16(m.p) == ST_SESSIONS && m.n > 30) { m.p[m.n - 1 - rnd(8)] ^= 0x55; } else m.p[9] ^= 1; break;
    }
    b_put32(&m, 2, (uint32_t)m.n);
    if (m.n == last->n && !memcmp(m.p, last->p, m.n)) { b_free(&m); return; }
    uint32_t cc = g32(m.p + 6);
    /* Shutdown/Startup and commands that legitimately end a pending H-CRTM sequence are not probed here */
    Blob img0 = {0}, img1 = {0}; uint8_t d0[32], d1[32];
    World wc; c02_world_copy(&wc, w);
    /* the battery itself may have an effect the first time it runs after the audit configuration changed (the first audited command
       bumps the audit counter and stores it): one warm-up run, then the reference */
    battery(&wc, b, 0, d0);
    Blob st0 = {0}; if (g_store[ST_PERM].present) blob_set(&st0, g_store[ST_PERM].p, g_store[ST_PERM].n);
    battery(&wc, b, 0, d0); persist_getimg(&img0);
    Rsp r = run_raw(m.p, (uint32_t)m.n);
    uint32_t rc = r.rc; long stores = g_store_in_cmd;
    if (rc != 0) {
        persist_getimg(&img1); battery(&wc, b, 0, d1);
        int img_eq = perm_equal_masked(img0.p, img0.n, img1.p, img1.n);
        int st_eq = (st0.present && g_store[ST_PERM].present) ? perm_equal_masked(st0.p, st0.n, g_store[ST_PERM].p, g_store[ST_PERM].n) : 1;
        tr("f cc=%x kind=%d rc=%u da=%d stores=%ld img_eq=%d store_eq=%d batt_eq=%d", cc, kind, rc, c05_is_da_rc(rc), stores, img_eq, st_eq, !memcmp(d0, d1, 32));
    } else {
        /* the mutated command succeeded: it is simply another command of the history; resync the client view */
        tr("f cc=%x kind=%d rc=0", cc, kind);
        if (cc == CC_FlushContext || cc == CC_ContextLoad || cc == CC_ContextSave || cc == CC_NV_UndefineSpace || cc == CC_NV_DefineSpace || cc == CC_EvictControl ||
            cc == CC_HierarchyChangeAuth || cc == CC_CreatePrimary || cc == CC_StartAuthSession || cc == CC_SequenceComplete || cc == CC_EventSequenceComplete || cc == CC_HashSequenceStart || cc == CC_HMAC_Start ||
            cc == CC_SetCommandCodeAuditStatus /* an altered list may put the commands of the fingerprint battery under audit: the battery would no longer be free of effects */ ||
            cc == 0x12D /* PP_Commands */ || cc == CC_HierarchyControl || cc == CC_Clear || cc == CC_ChangeEPS || cc == CC_ChangePPS || cc == CC_SetPrimaryPolicy)
            w->ops = -1;   /* signal: client view may be stale */
    }
    c02_world_free(&wc); blob_clear(&img0); blob_clear(&img1); blob_clear(&st0); b_free(&m);
}
/* twin oracle for a failing command: the TPM after the failed command must answer a continuation exactly like the TPM
 * that never saw it (resumed from a snapshot taken just before) */
static void c05_twin_fail(World *w, Buf *b, const uint8_t *cmd, uint32_t n, const char *what) {
    Snap s; memset(&s, 0, sizeof s);
    if (snap_take(&s, w)) return;
    uint64_t rng = g_rng;
    Rsp r = run_raw(cmd, n);
    uint32_t rc = r.rc, cc = n >= 10 ? g32(cmd + 6) : 0;
    if (rc == 0 || c05_is_da_rc(rc)) { tr("ftwin what=%s cc=%x rc=%u skipped=1", what, cc, rc); if (rc == 0) w->ops = -1; snap_free(&s); return; }
    uint8_t d1[32], d2[32];
    World w1; c02_world_copy(&w1, w);
    c02_continuation(&w1, b, 4, d1);
    static uint32_t log1[RESP_LOG_MAX][3]; memcpy(log1, g_resp_log, sizeof log1); long n1 = g_resp_count;
    if (snap_restore(&s, w)) die("C05: cannot resume from own snapshot");
    g_rng = rng;
    World w2; c02_world_copy(&w2, w);
    c02_continuation(&w2, b, 4, d2);
    long fd = -1; if (memcmp(d1, d2, 32)) for (long i = 0; i < RESP_LOG_MAX && i < n1; i++) if (memcmp(log1[i], g_resp_log[i], 12)) { fd = i; break; }
    tr_begin("ftwin what=%s cc=%x rc=%u equal=%d", what, cc, rc, !memcmp(d1, d2, 32));
    if (fd >= 0) fprintf(g_tr, " first_diff=%ld cc1=%x rc1=%u rc2=%u", fd, log1[fd][0], log1[fd][1], g_resp_log[fd][1]);
    tr_end();
    c02_world_free(w); *w = w2; snap_free(&s);
}
/* failing commands that byte mutation rarely produces */
static void c05_semantic_fail(World *w, Buf *b) {
    Buf c = {0};
    switch (rnd(7)) {
    case 5: case 6: { /* an ORDERLY index that NV has room for but the orderly RAM has not: refused with nothing left behind */
        uint32_t idx = 0x01400040u + rnd(8); uint16_t size = chance(50) ? 1024 : (uint16_t)(500 + rnd(300));
        cmd_begin(&c, ST_SESSIONS, CC_NV_DefineSpace); b_u32(&c, RH_OWNER); auth_pw_s(&c, w->ownerAuth);
        b_u16(&c, 0); b_u16(&c, 14); b_u32(&c, idx); b_u16(&c, ALG_SHA256); b_u32(&c, (1u << 2) | (1u << 18) | (1u << 1) | (1u << 17) | (1u << 25) | (1u << 26)); b_u16(&c, 0); b_u16(&c, size);
        b_put32(&c, 2, (uint32_t)c.n); c05_twin_fail(w, b, c.p, (uint32_t)c.n, "nv-define-orderly-ram-full"); break; }
    case 0: { /* PolicyPCR with a wrong digest on a fresh, real (non-trial) policy session */
        while (w->nsess >= 3) op_flush_session(w, b);
        { uint8_t nonce[16] = {0};
          cmd_begin(b, ST_NO_SESSIONS, CC_StartAuthSession); b_u32(b, RH_NULL); b_u32(b, RH_NULL); b_2b(b, nonce, 16); b_u16(b, 0); b_u8(b, 1); b_u16(b, ALG_NULL); b_u16(b, ALG_SHA256);
          Rsp r = w_run(w, b);
          if (r.rc != 0 || r.len < 14) { b_free(&c); return; }
          w->sess[w->nsess].h = g32(r.p + 10); w->sess[w->nsess].policy = 1; w->nsess++; }
        int si = w->nsess - 1;
        /* make sure the PCR update counter is not 0 */
        cmd_begin(b, ST_SESSIONS, CC_PCR_Extend); b_u32(b, 10); auth_pw_s(b, ""); b_u32(b, 1); b_u16(b, ALG_SHA256); for (int q = 0; q < 32; q++) b_u8(b, 1); run(b);
        cmd_begin(&c, ST_NO_SESSIONS, CC_PolicyPCR); b_u32(&c, w->sess[si].h); b_u16(&c, 32); for (int q = 0; q < 32; q++) b_u8(&c, rnd(256));
        b_u32(&c, 1); b_u16(&c, ALG_SHA256); b_u8(&c, 3); b_u8(&c, 0); b_u8(&c, 4); b_u8(&c, 0);
        b_put32(&c, 2, (uint32_t)c.n); c05_twin_fail(w, b, c.p, (uint32_t)c.n, "policypcr-wrong-digest"); break; }
    case 1: { if (!w->nnv) break; WNv *n = &w->nv[rnd(w->nnv)];
        cmd_begin(&c, ST_SESSIONS, CC_NV_Write); b_u32(&c, RH_OWNER); b_u32(&c, n->idx); auth_pw_s(&c, w->ownerAuth); b_2b(&c, "xx", 2); b_u16(&c, n->size);
        b_put32(&c, 2, (uint32_t)c.n); c05_twin_fail(w, b, c.p, (uint32_t)c.n, "nv-write-range"); break; }
    case 2: { cmd_begin(&c, ST_SESSIONS, CC_PCR_Extend); b_u32(&c, 17); auth_pw_s(&c, ""); b_u32(&c, 1); b_u16(&c, ALG_SHA256); for (int q = 0; q < 32; q++) b_u8(&c, 3);
        b_put32(&c, 2, (uint32_t)c.n); c05_twin_fail(w, b, c.p, (uint32_t)c.n, "pcr-extend-locality"); break; }
    case 3: { if (!w->nobj) break; WObj *o = &w->obj[rnd(w->nobj)];
        cmd_begin(&c, ST_SESSIONS, CC_EvictControl); b_u32(&c, RH_OWNER); b_u32(&c, o->h); auth_pw_s(&c, w->ownerAuth); b_u32(&c, 0x81800001u);
        b_put32(&c, 2, (uint32_t)c.n); c05_twin_fail(w, b, c.p, (uint32_t)c.n, "evict-wrong-range"); break; }
    default: { if (!w->nnv) break; WNv *n = &w->nv[rnd(w->nnv)];
        cmd_begin(&c, ST_SESSIONS, CC_NV_DefineSpace); b_u32(&c, RH_OWNER); auth_pw_s(&c, w->ownerAuth);
        b_u16(&c, 0); b_u16(&c, 14); b_u32(&c, n->idx); b_u16(&c, ALG_SHA256); b_u32(&c, n->attrs); b_u16(&c, 0); b_u16(&c, n->size);
        b_put32(&c, 2, (uint32_t)c.n); c05_twin_fail(w, b, c.p, (uint32_t)c.n, "nv-define-existing"); break; }
    }
    b_free(&c);
}
/* scripted: fill NV with persistent objects until TPM_RC_NV_SPACE, then the failing EvictControl must leave no trace */
static void c05_nv_full(World *w, Buf *b) {
    uint8_t uq[2] = {9, 9};
    Rsp r = w_create_primary(w, b, RH_OWNER, 0, uq, 2, "");
    if (r.rc != 0) return;
    uint32_t h = g32(r.p + 10); int n = 0; uint32_t rc = 0;
    uint8_t d0[32], d1[32];
    World wc; c02_world_copy(&wc, w); wc.nobj = 0; wc.obj[wc.nobj].h = h; wc.obj[wc.nobj].kind = 0; wc.nobj++;
    for (n = 0; n < 3000; n++) {
        cmd_begin(b, ST_SESSIONS, CC_EvictControl); b_u32(b, RH_OWNER); b_u32(b, h); auth_pw_s(b, w->ownerAuth); b_u32(b, 0x81000100u + n);
        Rsp e = run(b); rc = e.rc;
        if (rc != 0) break;
    }
    int transient_ok = -1;
    if (rc != 0) { cmd_begin(b, ST_NO_SESSIONS, CC_ReadPublic); b_u32(b, h); transient_ok = run(b).rc == 0; }
    if (rc != 0) {
        /* NV is full now: the same request again must fail the same way and leave no trace */
        battery(&wc, b, 0, d0);
        cmd_begin(b, ST_SESSIONS, CC_EvictControl); b_u32(b, RH_OWNER); b_u32(b, h); auth_pw_s(b, w->ownerAuth); b_u32(b, 0x81000100u + n);
        Rsp e = run(b); rc = e.rc;
        battery(&wc, b, 0, d1);
    }
    tr("nvfull persisted=%d rc=%u batt_eq=%d transient_ok=%d", n, rc, rc ? !memcmp(d0, d1, 32) : -1, transient_ok);
    if (rc != 0) {
        /* NV is full, the orderly RAM is not: an ORDERLY index that the RAM could take but NV cannot is refused with nothing left
           behind — not in the image, not in storage, not in the RAM */
        { static const uint16_t FS[] = {1500, 700, 300, 100, 30, 1}; uint32_t fh = 0x01400060u;   /* what room is left goes to filler indices */
          for (int q = 0; q < 6; q++) for (int rep = 0; rep < 12; rep++) { cmd_begin(b, ST_SESSIONS, CC_NV_DefineSpace); b_u32(b, RH_OWNER); auth_pw_s(b, w->ownerAuth); b_u16(b, 0); b_u16(b, 14); b_u32(b, fh++); b_u16(b, ALG_SHA256);
              b_u32(b, (1u << 2) | (1u << 18) | (1u << 1) | (1u << 17) | (1u << 25)); b_u16(b, 0); b_u16(b, FS[q]); if (run(b).rc != 0) break; } }
        Blob i0 = {0}, i1 = {0}; uint8_t e0[32], e1[32]; persist_getimg(&i0); battery(&wc, b, 0, e0); long sc = g_store_calls;
        cmd_begin(b, ST_SESSIONS, CC_NV_DefineSpace); b_u32(b, RH_OWNER); auth_pw_s(b, w->ownerAuth); b_u16(b, 0); b_u16(b, 14); b_u32(b, 0x01400051u); b_u16(b, ALG_SHA256);
        b_u32(b, (1u << 2) | (1u << 18) | (1u << 1) | (1u << 17) | (1u << 25) | (1u << 26)); b_u16(b, 0); b_u16(b, 100); Rsp dr = run(b); long stores = g_store_calls - sc;
        persist_getimg(&i1); battery(&wc, b, 0, e1);
        tr("nvfull2 rc=%u img_eq=%d stores=%ld batt_eq=%d", dr.rc, perm_equal_masked(i0.p, i0.n, i1.p, i1.n), stores, !memcmp(e0, e1, 32));
        blob_clear(&i0); blob_clear(&i1);
    }
    c02_world_free(&wc);
    w->ops = -1;   /* the persistent handles are not tracked: end this history */
}

/* cancellation: the cancel request lands at poll k of an RSA key generation */
static void c05_cancel(World *w, Buf *b, int k) {
    uint8_t uq[2] = {(uint8_t)k, 7};
    w_enable_hierarchies(w, b);   /* the key is made in the owner hierarchy */
    Buf t = {0};
    b_u16(&t, ALG_RSA); b_u16(&t, ALG_SHA256); b_u32(&t, 0x00040472u); b_u16(&t, 0);
    b_u16(&t, ALG_NULL); b_u16(&t, ALG_RSASSA); b_u16(&t, ALG_SHA256); b_u16(&t, 2048); b_u32(&t, 0); b_2b(&t, uq, 2);
    while (w->nobj + w->nseq >= 3 && w->nobj) op_flush_object(w, b);
    while (w->nobj + w->nseq >= 3 && w->nseq) { cmd_begin(b, ST_NO_SESSIONS, CC_FlushContext); b_u32(b, w->seq[w->nseq - 1].h); run(b); w->nseq--; }
    World wc; c02_world_copy(&wc, w);
    uint8_t d0[32], d1[32]; Blob img0 = {0}, img1 = {0};
    battery(&wc, b, 0, d0); persist_getimg(&img0);
    cmd_begin(b, ST_SESSIONS, CC_CreatePrimary); b_u32(b, RH_OWNER); auth_pw_s(b, w->ownerAuth);
    b_u16(b, 4); b_u16(b, 0); b_u16(b, 0); b_2b(b, t.p, t.n); b_u16(b, 0); b_u32(b, 0);
    b_put32(b, 2, (uint32_t)b->n);
    if (k == -2) TPMLIB_CancelCommand();     /* stale cancel request issued before Process: must have no effect */
    g_cancel_at = k >= 0 ? k : -1;
    Rsp r = run_raw(b->p, (uint32_t)b->n);
    long polls = g_polls; g_cancel_at = -1;
    uint32_t h = (r.rc == 0 && r.len >= 14) ? g32(r.p + 10) : 0;
    persist_getimg(&img1);
    if (r.rc == 0) { cmd_begin(b, ST_NO_SESSIONS, CC_FlushContext); b_u32(b, h); run(b); }
    battery(&wc, b, 0, d1);
    tr("cancel k=%d rc=%u polls=%ld stores=%ld img_eq=%d batt_eq=%d", k, r.rc, polls, g_store_in_cmd, perm_equal_masked(img0.p, img0.n, img1.p, img1.n), !memcmp(d0, d1, 32));
    c02_world_free(&wc); blob_clear(&img0); blob_clear(&img1); b_free(&t);
}
static void scen_c05(int histories, int maxops, int ncancel) {
    g_gen_host_rng_ok = 0;
    Buf b = {0}, last = {0}; World w; memset(&w, 0, sizeof w);
    for (int h = 0; h < histories; h++) {
        tr("hist %d", h); w_reset(&w);
        tpm2_fresh(h % 3 == 0 ? NULL : (h % 3 == 1 ? PROFILE_DEFAULT_V1 : PROFILE_CUSTOM)); tpm2_startup(&b, 0);
        int n = 8 + rnd(maxops);
        if (h % 6 == 5) { for (int i = 0; i < 5; i++) gen_op(&w, &b); c05_nv_full(&w, &b); continue; }
        if (h < ncancel) { for (int i = 0; i < 4; i++) gen_op(&w, &b); c05_cancel(&w, &b, h == 0 ? -2 : (h == 1 ? -1 : (h < 5 ? h - 2 : (int)rnd(12)))); }
        for (int i = 0; i < n; i++) {
            gen_op(&w, &b);
            b_reset(&last); b_bytes(&last, b.p, b.n);
            for (int k = 0; k < 3; k++) { c05_fail_probe(&w, &b, &last); if (w.ops < 0) break; }
            if (w.ops < 0) break;     /* client view stale: start a new history */
            if (chance(25)) { c05_semantic_fail(&w, &b); if (w.ops < 0) break; }
        }
    }
    w_reset(&w); b_free(&b); b_free(&last);
}

/* ------------------------------- C07 ------------------------------- */
/* a value that depends on the endorsement primary seed: the Name of a keyedhash primary made from a fixed template */
static int c07_fingerprint(Buf *b, uint8_t out[34]) {
    Buf t = {0}; b_u16(&t, ALG_KEYEDHASH); b_u16(&t, ALG_SHA256); b_u32(&t, 0x00040472u); b_u16(&t, 0); b_u16(&t, ALG_HMAC); b_u16(&t, ALG_SHA256); b_u16(&t, 0);
    cmd_begin(b, ST_SESSIONS, CC_CreatePrimary); b_u32(b, RH_ENDORSEMENT); auth_pw(b, "", 0); b_u16(b, 4); b_u16(b, 0); b_u16(b, 0); b_2b(b, t.p, t.n); b_u16(b, 0); b_u32(b, 0);
    Rsp r = run(b); b_free(&t); if (r.rc != 0) return -1;
    uint32_t h = g32(r.p + 10); Rd rd = rsp_params(&r, 1); uint16_t l; r_2b(&rd, &l); r_2b(&rd, &l); r_2b(&rd, &l); r_u16(&rd); r_u32(&rd); r_2b(&rd, &l); const uint8_t *nm = r_2b(&rd, &l);
    int n = -1; if (!rd.err && l <= 34) { memcpy(out, nm, l); n = l; }
    cmd_begin(b, ST_NO_SESSIONS, CC_FlushContext); b_u32(b, h); run(b);
    return n;
}
static void scen_c07(int histories, int maxops) {
    g_gen_host_rng_ok = 1;
    Buf b = {0}; World w; memset(&w, 0, sizeof w);
    for (int h = 0; h < histories; h++) {
        tr("hist %d", h); w_reset(&w);
        /* (a) faults during the very first MainInit (manufacture) */
        if (h % 4 == 0) {
            TPMLIB_Terminate(); storage_reset();
            TPMLIB_ChooseTPMVersion(TPMLIB_TPM_VERSION_2); TPMLIB_RegisterCallbacks(&g_cbs);
            int which = rnd(3);
            if (which == 0) g_store_fail_at = 0; else if (which == 1) g_nvinit_fail_at = 0; else g_ioinit_fail_at = 0;
            TPM_RESULT mi = TPMLIB_MainInit();
            long accepted = g_store[ST_PERM].present;
            Rsp r = tpm2_startup(&b, 0);
            /* does a later committing command work, i.e. did MainInit leave a usable TPM behind its return value? */
            cmd_begin(&b, ST_SESSIONS, CC_ClearControl); b_u32(&b, RH_PLATFORM); auth_pw(&b, "", 0); b_u8(&b, 0); Rsp r2 = run(&b);
            tr("firstinit fault=%s maininit=%u stored=%ld startup_rc=%u next_rc=%u manufactured=%d", which == 0 ? "store" : (which == 1 ? "nvinit" : "ioinit"), mi, accepted, r.rc, r2.rc, TPMLIB_WasManufactured());
            faults_clear();
        }
        tpm2_fresh(h % 3 == 0 ? NULL : (h % 3 == 1 ? PROFILE_DEFAULT_V1 : PROFILE_CUSTOM)); tpm2_startup(&b, 0);
        int n = 6 + rnd(maxops);
        for (int i = 0; i < n; i++) gen_op(&w, &b);
        /* (b) the k-th next store call fails */
        long k = rnd(4);
        g_store_fail_at = g_store_calls + k; g_store_fail_sticky = chance(50);
        long accepted_before = g_store_calls;
        int hit = 0;
        for (int i = 0; i < 40 && !hit; i++) {
            long fired0 = g_fault_fired;
            gen_op(&w, &b);
            if (g_fault_fired > fired0) {
                hit = 1;
                tr("storefault k=%ld cc=%x rc=%u infail=%d", k, w.last_cc, w.last_rc, g_inFailureMode);
                /* afterwards every command must be answered TPM_RC_FAILURE until re-init */
                int allfail = 1; for (int q = 0; q < 5; q++) { cmd_begin(&b, ST_NO_SESSIONS, CC_GetRandom); b_u16(&b, 4); Rsp r = run(&b); if (r.rc != RC_FAILURE) allfail = 0; }
                unsigned char *gp = NULL; uint32_t gl = 0; TPM_RESULT gs = TPMLIB_GetState(TPMLIB_STATE_PERMANENT, &gp, &gl); free(gp);
                tr("afterfault allfail=%d getstate=%u", allfail, gs);
            }
        }
        (void)accepted_before;
        /* (c) restart from whatever storage last accepted: must be loadable and consistent */
        faults_clear();
        TPM_RESULT mi = tpm2_powercycle(); Rsp sr = tpm2_startup(&b, 0);
        TPM_RESULT vs = TPMLIB_ValidateState(TPMLIB_STATE_PERMANENT, 0);
        cmd_begin(&b, ST_NO_SESSIONS, CC_GetCapability); b_u32(&b, 1); b_u32(&b, 0x01000000); b_u32(&b, 50); Rsp cr = run(&b);
        tr("restart hit=%d maininit=%u startup_rc=%u validate=%u cap_rc=%u", hit, mi, sr.rc, vs, cr.rc);
        /* (d) load callback misbehaves at the next MainInit */
        TPMLIB_Terminate();
        int mode = 1 + rnd(3); g_load_fail_at = g_load_calls; g_load_fail_mode = mode;
        long f0 = g_fault_fired;
        TPM_RESULT vs2 = TPMLIB_ValidateState(TPMLIB_STATE_PERMANENT, 0);
        if (g_fault_fired == f0) { g_load_fail_at = g_load_calls; vs2 = TPMLIB_ValidateState(TPMLIB_STATE_PERMANENT, 0); }
        g_load_fail_at = g_load_calls + 1;
        TPM_RESULT mi2 = TPMLIB_MainInit();
        Rsp sr2 = tpm2_startup(&b, 0);
        tr("loadfault mode=%d validate=%u maininit=%u startup_rc=%u infail=%d", mode, vs2, mi2, sr2.rc, g_inFailureMode);
        faults_clear();
        /* (e) the load callback fails at the k-th call of a MainInit over existing state (k = 0 is the probe for
           existing state): whatever MainInit answers, the stored TPM must still be the same TPM afterwards */
        { TPMLIB_Terminate(); TPM_RESULT m0 = TPMLIB_MainInit(); tpm2_startup(&b, 0);
          uint8_t fp0[34], fp1[34]; int n0 = c07_fingerprint(&b, fp0);
          TPMLIB_Terminate();
          int k = rnd(3), mode2 = 1 + rnd(3); g_load_fail_at = g_load_calls + k; g_load_fail_mode = mode2; long f1 = g_fault_fired;
          TPM_RESULT m1 = TPMLIB_MainInit(); int fired = g_fault_fired != f1;
          int manufactured = m1 == 0 ? TPMLIB_WasManufactured() : 0;
          faults_clear();
          TPMLIB_Terminate(); TPM_RESULT m2 = TPMLIB_MainInit(); Rsp s2 = tpm2_startup(&b, 0);
          int n1 = c07_fingerprint(&b, fp1);
          tr("loadprobe k=%d mode=%d fired=%d pre=%u maininit=%u manufactured=%d after=%u startup_rc=%u n0=%d n1=%d same=%d", k, mode2, fired, m0, m1, manufactured, m2, s2.rc, n0, n1, n0 > 0 && n0 == n1 && !memcmp(fp0, fp1, n0)); }
    }
    w_reset(&w); b_free(&b);
}
