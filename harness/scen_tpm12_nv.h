/* TPM 1.2 NV storage operations for the C20 histories (included by scen_tpm12.h).
 * Every operation is traced as an `nv name=... ` line with its inputs (tag class, locality, hardware presence signal,
 * index, attributes, sizes, data) and what the TPM answered (rc, output parameters); Model.Tpm12.Nv predicts every rc
 * and every output byte.  The harness keeps a small client-side note of what it defined (only to choose plausible
 * offsets and sizes), it never judges an answer. */
#ifndef VERIF_SCEN_TPM12_NV_H
#define VERIF_SCEN_TPM12_NV_H

#define NVP_PPWRITE 0x1u
#define NVP_OWNERWRITE 0x2u
#define NVP_AUTHWRITE 0x4u
#define NVP_WRITEALL 0x1000u
#define NVP_WRITEDEFINE 0x2000u
#define NVP_WRITE_STCLEAR 0x4000u
#define NVP_GLOBALLOCK 0x8000u
#define NVP_PPREAD 0x10000u
#define NVP_OWNERREAD 0x20000u
#define NVP_AUTHREAD 0x40000u
#define NVP_READ_STCLEAR 0x80000000u
#define T12_NV_INDEX_LOCK 0xFFFFFFFFu
#define T12_NV_INDEX_DIR 0x10000001u
#define T12_NV_INDEX_TRIAL 0x0000F004u

#define C20NV_POOL 6
typedef struct { uint32_t size; uint32_t attrs; int zero_auth; /* defined without authorization: the authValue is the all-zero encAuth */ } C20NvNote;
static C20NvNote c20nv_note[C20NV_POOL];
static int c20nv_locked;                 /* the harness asked for nvLocked at least once (only steers the choice of commands) */
static int c20nv_owner;                  /* an owner is installed: owner-authorized variants are issued too */

static uint32_t c20nv_pool_index(int i) { return 0x00011200u + (uint32_t)i; }
static int c20nv_pool_slot(uint32_t idx) { return (idx >= 0x00011200u && idx < 0x00011200u + C20NV_POOL) ? (int)(idx - 0x00011200u) : -1; }

/* TPM_NV_DATA_PUBLIC with explicit locality selections (no PCR selected) + encAuth */
static void c20nv_public(Buf *b, uint32_t idx, uint32_t attrs, uint32_t size, uint8_t lr, uint8_t lw) {
    b_u16(b, 0x0018); b_u32(b, idx);
    b_u16(b, 3); b_u8(b, 0); b_u8(b, 0); b_u8(b, 0); b_u8(b, lr); b_fill(b, 20, 1);
    b_u16(b, 3); b_u8(b, 0); b_u8(b, 0); b_u8(b, 0); b_u8(b, lw); b_fill(b, 20, 1);
    b_u16(b, 0x0017); b_u32(b, attrs);
    b_u8(b, 0); b_u8(b, 0); b_u8(b, 0); b_u32(b, size);
}
/* output parameters of a response: everything after the header, minus the authorization trailer of an AUTH1 answer */
static void c20nv_out(const Rsp *r, const uint8_t **p, uint32_t *n) {
    *p = NULL; *n = 0;
    if (r->rc != 0 || r->len <= 10) return;
    uint32_t k = r->len - 10;
    if (r->tag == 0x00C5 && k >= 41) k -= 41;
    *p = r->p + 10; *n = k;
}
static void c20nv_trace(const char *name, const char *tag, const Rsp *r, const char *fmt, ...) {
    tr_begin("nv name=%s tag=%s loc=%d hw=%d ret=%u rc=%u stores=%ld", name, tag, g_locality, g_pp, r->ret, r->rc, g_store_perm_in_cmd);
    if (fmt) { va_list ap; va_start(ap, fmt); fputc(' ', g_tr); vfprintf(g_tr, fmt, ap); va_end(ap); }
    const uint8_t *p; uint32_t n; c20nv_out(r, &p, &n);
    trhex("out", p, n);
}
static int c20nv_skipped(const Rsp *r) { return r->rc == 0xFFFFFFFF && !r->len; }

static uint32_t c20nv_define(Buf *b, uint32_t idx, uint32_t attrs, uint32_t size, uint8_t lr, uint8_t lw) {
    t12_begin(b, T12_TAG0, T12_ORD_NV_DefineSpace); c20nv_public(b, idx, attrs, size, lr, lw); b_fill(b, 20, 1);
    Rsp r = c20_run(b, "nvdefine"); if (c20nv_skipped(&r)) return r.rc;
    c20nv_trace("define", "rqu", &r, "idx=%u attrs=%u size=%u lr=%u lw=%u", idx, attrs, size, lr, lw); tr_end();
    int s = c20nv_pool_slot(idx);
    if (r.rc == 0 && s >= 0) { c20nv_note[s].size = size; c20nv_note[s].attrs = attrs; c20nv_note[s].zero_auth = 1; }
    if (r.rc == 0 && idx == T12_NV_INDEX_LOCK) c20nv_locked = 1;
    return r.rc;
}
static uint32_t c20nv_write(Buf *b, uint32_t idx, uint32_t off, const uint8_t *d, uint32_t n) {
    t12_begin(b, T12_TAG0, T12_ORD_NV_WriteValue); b_u32(b, idx); b_u32(b, off); b_u32(b, n); b_bytes(b, d, n);
    Rsp r = c20_run(b, "nvwrite"); if (c20nv_skipped(&r)) return r.rc;
    c20nv_trace("write", "rqu", &r, "idx=%u off=%u", idx, off); trhex("d", d, n); tr_end();
    return r.rc;
}
static uint32_t c20nv_read(Buf *b, uint32_t idx, uint32_t off, uint32_t n) {
    t12_begin(b, T12_TAG0, T12_ORD_NV_ReadValue); b_u32(b, idx); b_u32(b, off); b_u32(b, n);
    Rsp r = c20_run(b, "nvread"); if (c20nv_skipped(&r)) return r.rc;
    c20nv_trace("read", "rqu", &r, "idx=%u off=%u n=%u", idx, off, n); tr_end();
    return r.rc;
}
static uint32_t c20nv_tscpp(Buf *b, uint16_t v) {
    t12_begin(b, T12_TAG0, T12_TSC_PhysicalPresence); b_u16(b, v);
    Rsp r = c20_run(b, "tscpp"); if (c20nv_skipped(&r)) return r.rc;
    c20nv_trace("tscpp", "rqu", &r, "v=%u", v); tr_end();
    return r.rc;
}
static void c20nv_getpub(Buf *b, uint32_t idx) {
    t12_begin(b, T12_TAG0, T12_ORD_GetCapability); b_u32(b, 0x11); b_u32(b, 4); b_u32(b, idx);
    Rsp r = c20_run(b, "nvgetpub"); if (c20nv_skipped(&r)) return;
    c20nv_trace("getpub", "rqu", &r, "idx=%u", idx); tr_end();
}
/* TPM_CAP_FLAG_PERMANENT / TPM_CAP_FLAG_VOLATILE: the flag structures as the TPM reports them */
static void c20nv_flags(Buf *b) {
    for (int k = 0; k < 2; k++) {
        t12_begin(b, T12_TAG0, T12_ORD_GetCapability); b_u32(b, 4); b_u32(b, 4); b_u32(b, k ? 0x109 : 0x108);
        Rsp r = c20_run(b, "nvflags"); if (c20nv_skipped(&r)) return;
        c20nv_trace(k ? "volflags" : "permflags", "rqu", &r, NULL); tr_end();
    }
}
static uint32_t c20nv_savestate(Buf *b) {
    t12_begin(b, T12_TAG0, T12_ORD_SaveState);
    Rsp r = c20_run(b, "savestate"); if (c20nv_skipped(&r)) return r.rc;
    c20nv_trace("savestate", "rqu", &r, NULL); tr_end();
    return r.rc;
}
static void c20ctr_audit(Buf *b);
/* read back everything the harness knows about: public data (flags!) and contents of every pool index, DIR, flags */
static void c20nv_audit(Buf *b) {
    c20nv_flags(b);
    for (int i = 0; i < C20NV_POOL; i++) {
        c20nv_getpub(b, c20nv_pool_index(i));
        uint32_t sz = c20nv_note[i].size; if (sz > 600) sz = 600;
        if (sz) c20nv_read(b, c20nv_pool_index(i), 0, sz);
    }
    c20nv_read(b, T12_NV_INDEX_DIR, 0, 20);
    if (c20nv_owner) c20ctr_audit(b);
}

static uint32_t c20nv_rand_attrs(void) {
    static const uint32_t base[] = {NVP_PPWRITE, NVP_PPWRITE, NVP_PPWRITE | NVP_PPREAD, NVP_WRITEDEFINE, NVP_PPWRITE | NVP_WRITEDEFINE,
        NVP_PPWRITE | NVP_WRITE_STCLEAR, NVP_PPWRITE | NVP_READ_STCLEAR, NVP_PPWRITE | NVP_GLOBALLOCK, NVP_PPWRITE | NVP_WRITEALL,
        NVP_WRITEDEFINE | NVP_WRITE_STCLEAR | NVP_READ_STCLEAR | NVP_GLOBALLOCK, NVP_OWNERWRITE, NVP_OWNERWRITE | NVP_OWNERREAD,
        NVP_AUTHWRITE, NVP_AUTHWRITE | NVP_AUTHREAD, NVP_PPWRITE | NVP_OWNERREAD, NVP_PPWRITE | NVP_AUTHREAD, 0, NVP_PPREAD,
        NVP_OWNERWRITE | NVP_AUTHWRITE, NVP_PPWRITE | NVP_OWNERREAD | NVP_AUTHREAD};
    uint32_t a = base[rnd(sizeof base / sizeof base[0])];
    if (chance(25)) a |= (uint32_t[]){NVP_WRITEDEFINE, NVP_WRITE_STCLEAR, NVP_READ_STCLEAR, NVP_GLOBALLOCK, NVP_WRITEALL, NVP_PPREAD}[rnd(6)];
    if (chance(3)) a |= 1u << rnd(32);                        /* bits without a meaning are stored as they are */
    return a;
}
static uint8_t c20nv_rand_loc(void) { return chance(80) ? 0x1f : chance(85) ? (uint8_t)(1 + rnd(30)) : (uint8_t[]){0, 0x20, 0x3f, 0xff}[rnd(4)]; }

/* one random NV-related operation */
static void c20nv_random(Buf *b) {
    static uint8_t d[1024];
    int slot = rnd(C20NV_POOL);
    uint32_t idx = c20nv_pool_index(slot);
    uint32_t known = c20nv_note[slot].size;
    if (chance(6)) g_pp = rnd(2);
    switch (rnd(24)) {
    case 0: case 1: case 2: case 3: {   /* define / redefine / delete */
        uint32_t sz = chance(70) ? 1 + rnd(48) : (uint32_t[]){0, 0, 0, 300, 1000, 0x7000, 0x6f00, 0x10000, 0x20000, 0x20001, 0xFFFFFFFFu}[rnd(11)];
        uint32_t ix = idx;
        if (chance(8)) ix = (uint32_t[]){0, T12_NV_INDEX_DIR, T12_NV_INDEX_TRIAL, 0x10011200u, 0x01011200u, 0x00021234u, 0x40011200u, 0x0000F000u}[rnd(8)];
        c20nv_define(b, ix, c20nv_rand_attrs(), sz, c20nv_rand_loc(), c20nv_rand_loc()); break; }
    case 4: case 5: case 6: case 7: case 8: {   /* write inside / around the area */
        uint32_t sz = known ? known : 16, off, n;
        switch (rnd(6)) {
        case 0: off = 0; n = sz; break;                                            /* the whole area */
        case 1: off = rnd(sz); n = 1 + rnd(sz - off); break;                       /* a part */
        case 2: off = rnd(sz + 2); n = 1 + rnd(sz + 2); break;                     /* possibly across the end */
        case 3: off = chance(50) ? 0xFFFFFFFFu - rnd(4) : rnd(8); n = 1 + rnd(8); break;
        case 4: off = 0; n = sz > 1 ? sz - 1 : 1; break;                           /* one short of a full write */
        default: off = rnd(sz); n = 1; break; }
        if (n > sizeof d) n = sizeof d;
        c20_rand_bytes(d, n);
        if (chance(10)) memset(d, 0xff, n);                                         /* the value a fresh area already holds */
        c20nv_write(b, idx, off, d, n); break; }
    case 9: case 10: {                   /* size 0 write: sets bWriteSTClear / bWriteDefine */
        c20nv_write(b, idx, chance(80) ? 0 : rnd(100), d, 0); break; }
    case 11: case 12: case 13: case 14: {
        uint32_t sz = known ? known : 16, off, n;
        switch (rnd(4)) {
        case 0: off = 0; n = sz; break;
        case 1: off = rnd(sz); n = 1 + rnd(sz - off); break;
        case 2: off = rnd(sz + 2); n = 1 + rnd(sz + 2); break;
        default: off = chance(50) ? 0xFFFFFFF0u + rnd(16) : rnd(8); n = 1 + rnd(0x20); break; }
        if (n > 900) n = 900;
        c20nv_read(b, idx, off, n); break; }
    case 15: c20nv_read(b, idx, chance(80) ? 0 : rnd(100), 0); break;              /* size 0 read: sets bReadSTClear */
    case 16: {                           /* the pseudo indices */
        switch (rnd(8)) {
        case 0: c20nv_write(b, 0, 0, d, 0); break;                                  /* bGlobalLock */
        case 1: c20_rand_bytes(d, 4); c20nv_write(b, 0, 0, d, 1 + rnd(4)); break;
        case 2: c20_rand_bytes(d, 20); c20nv_write(b, T12_NV_INDEX_DIR, 0, d, 20); break;
        case 3: c20_rand_bytes(d, 24); c20nv_write(b, T12_NV_INDEX_DIR, rnd(3), d, 18 + rnd(5)); break;
        case 4: c20nv_write(b, T12_NV_INDEX_DIR, 0, d, 0); break;
        case 5: c20nv_read(b, T12_NV_INDEX_DIR, rnd(22), rnd(24)); break;
        case 6: c20nv_read(b, chance(50) ? T12_NV_INDEX_LOCK : 0, 0, rnd(4)); break;
        default: c20_rand_bytes(d, 4); c20nv_write(b, T12_NV_INDEX_LOCK, 0, d, rnd(4)); break; }
        break; }
    case 17: case 18: {                  /* physical presence */
        uint16_t v = chance(88) ? (uint16_t[]){0x20, 0x08, 0x08, 0x10, 0x10, 0x04, 0x40, 0x200, 0x100, 0x20, 0x08}[rnd(11)]
                   : chance(70) ? (uint16_t[]){0x80, 0x28, 0x18, 0x0c, 0x60, 0x240, 0x120, 0, 0x14, 0x1}[rnd(10)] : (uint16_t)rnd64();
        if (v == 0x80 && !chance(30)) v = 0x08;                                     /* the lifetime lock is for ever */
        c20nv_tscpp(b, v); break; }
    case 19: {                           /* nvLocked */
        if (c20nv_locked || chance(40)) c20nv_define(b, T12_NV_INDEX_LOCK, chance(50) ? 0 : c20nv_rand_attrs(), chance(90) ? 0 : 1 + rnd(8), 0x1f, 0x1f);
        else c20nv_getpub(b, idx);
        break; }
    case 20: c20nv_getpub(b, chance(90) ? idx : (uint32_t[]){0, T12_NV_INDEX_LOCK, T12_NV_INDEX_DIR, 0x00011300u}[rnd(4)]); break;
    case 21: c20nv_flags(b); break;
    default: {                           /* write then read back the same range */
        uint32_t sz = known ? known : 16, off = rnd(sz), n = 1 + rnd(sz - off);
        if (n > sizeof d) n = sizeof d;
        c20_rand_bytes(d, n);
        if (c20nv_write(b, idx, off, d, n) == 0) c20nv_read(b, idx, off, n);
        break; }
    }
}

/* ---------- owner-authorized and area-authorized variants (an owner is installed in a few histories) ----------
 * The client (t12_client.h) sends its commands through c20_t12c_run: session set-up commands (OIAP, OSAP, Terminate_Handle,
 * CreateEndorsementKeyPair ...) are traced as `op name=other`; the NV command itself is traced by the caller as an `nv` line
 * with tag=auth1ok / auth1bad (= the client built a correct / a deliberately wrong HMAC) and hmac=<response HMAC verified>. */
/* the authorization bytes of the last authorized request / answer, appended to the trace line that is being written */
static void c20_trace_auth(void) {
    T12cAuthLog *g = &g12c_log;
    if (!g->have_req) return;
    if (g->osap) { trhex("aes", g->es, 20); trhex("aneo", g->neo, 20); trhex("anoo", g->noo, 20); } else trhex("ak", g->key, 20);
    trhex("ane", g->ne, 20); trhex("ano", g->no, 20); fprintf(g_tr, " ac=%u corrupt=%d", g->cont, g->corrupt); trhex("apd", g->pd, g->pdlen); trhex("amac", g->mac, 20);
    if (g->have_rsp) { trhex("rne", g->rne, 20); fprintf(g_tr, " rcont=%u", g->rcont); trhex("rpd", g->rpd, g->rpdlen); trhex("rmac", g->rmac, 20); }
    g->have_req = g->have_rsp = 0;
}

static Rsp c20nv_main; static long c20nv_main_stores; static int c20nv_have_main; static int c20nv_badauth;
static Rsp c20_t12c_run(Buf *b, const char *label) {
    Rsp r = c20_run(b, label);
    if (r.rc == 0xFFFFFFFF && !r.len) return r;
    uint32_t ord = b->n >= 10 ? g32(b->p + 6) : 0;
    if (ord == T12_ORD_NV_DefineSpace || ord == T12_ORD_NV_WriteValue || ord == T12_ORD_NV_ReadValue || ord == 0xCE || ord == 0xD0 || ord == 0x0D ||
        ord == 0xDC || ord == 0xDD || ord == 0xDF || ord == 0xE0 || ord == 0x78 || ord == 0x5B || ord == 0x5C || ord == 0x6E) {
        c20nv_main = r; c20nv_main_stores = g_store_perm_in_cmd; c20nv_have_main = 1; return r;     /* traced by the caller */
    }
    tr("op name=other loc=%d ret=%u rc=%u ord=%u stores=%ld", g_locality, r.ret, r.rc, ord, g_store_perm_in_cmd);
    return r;
}
static void c20nv_area_auth(uint8_t a[20], uint32_t idx) {
    int sl = c20nv_pool_slot(idx);
    for (int i = 0; i < 20; i++) a[i] = (sl >= 0 && c20nv_note[sl].zero_auth) ? 0 : (uint8_t)(0xA0 + (idx & 0xf) + i);
}
static int c20nv_corrupt_max(int maxmode) { if (c20nv_badauth >= 3 || !chance(12)) return 0; c20nv_badauth++; return 1 + (int)rnd((uint32_t)maxmode); }
static int c20nv_corrupt(void) { return c20nv_corrupt_max(5); }
/* the `nv` line of a command sent by the client; `d`/`n`: data written or read back */
static void c20nv_trace_client(const char *name, int corrupt, int verified, const char *fmt, ...) {
    if (!c20nv_have_main) return;                                                   /* the session could not be opened: nothing was sent */
    c20nv_have_main = 0;
    const Rsp *r = &c20nv_main;
    tr_begin("nv name=%s tag=%s loc=%d hw=%d ret=%u rc=%u stores=%ld hmac=%d", name, corrupt ? "auth1bad" : "auth1ok", g_locality, g_pp, r->ret, r->rc, c20nv_main_stores, verified);
    if (fmt) { va_list ap; va_start(ap, fmt); fputc(' ', g_tr); vfprintf(g_tr, fmt, ap); va_end(ap); }
}
static void c20nv_install_owner(Buf *b) {
    static const uint8_t own[20] = {1, 2, 3, 4, 5, 6, 7, 8, 9, 10, 11, 12, 13, 14, 15, 16, 17, 18, 19, 20}, srk[20] = {0};
    t12c_run = c20_t12c_run;
    memset(&g12c, 0, sizeof g12c);
    c20nv_tscpp(b, 0x20); c20nv_tscpp(b, 0x08);
    c20nv_have_main = 0; g12c_log.have_req = 0;
    uint32_t ekrc = t12c_create_ek(b);
    if (c20nv_have_main) tr("op name=other loc=%d ret=%u rc=%u ord=%u stores=%ld", g_locality, c20nv_main.ret, c20nv_main.rc, 0x78, c20nv_main_stores);
    if (ekrc != 0) return;
    c20nv_have_main = 0; g12c_log.have_req = 0;
    uint32_t rc = t12c_take_ownership(b, own, srk);
    if (!c20nv_have_main) return;
    tr_begin("nv name=takeownership tag=auth1ok loc=%d hw=%d ret=%u rc=%u stores=%ld hmac=%d out=-", g_locality, g_pp, c20nv_main.ret, c20nv_main.rc, c20nv_main_stores, rc == 0);
    c20_trace_auth(); tr_end();
    c20nv_have_main = 0; g12c_log.have_req = 0;
    if (rc == 0) c20nv_owner = 1;
}
static void c20nv_define_owner(Buf *b, uint32_t idx, uint32_t attrs, uint32_t size) {
    uint8_t auth[20]; for (int i = 0; i < 20; i++) auth[i] = (uint8_t)(0xA0 + (idx & 0xf) + i);
    int corrupt = c20nv_corrupt(), ver = -1;
    c20nv_have_main = 0; g12c_log.have_req = 0;
    uint32_t rc = t12c_nv_define_owner(b, idx, attrs, size, auth, corrupt, &ver);
    if (!c20nv_have_main) return;
    c20nv_trace_client("define", corrupt, ver, "idx=%u attrs=%u size=%u lr=31 lw=31 out=-", idx, attrs, size); c20_trace_auth(); tr_end();
    int sl = c20nv_pool_slot(idx);
    if (rc == 0 && sl >= 0) { c20nv_note[sl].size = size; c20nv_note[sl].attrs = attrs; c20nv_note[sl].zero_auth = 0; }
}
static void c20nv_write_client(Buf *b, int area_auth, uint32_t idx, uint32_t off, const uint8_t *d, uint32_t n) {
    uint8_t auth[20]; c20nv_area_auth(auth, idx); int corrupt = n ? c20nv_corrupt() : c20nv_corrupt_max(4), ver = -1;   /* 5 alters the last data byte */
    c20nv_have_main = 0; g12c_log.have_req = 0;
    if (area_auth) t12c_nv_write_auth(b, NULL, auth, idx, off, d, n, corrupt, &ver); else t12c_nv_write_owner(b, NULL, idx, off, d, n, corrupt, &ver);
    if (!c20nv_have_main) return;
    c20nv_trace_client(area_auth ? "writeauth" : "write", corrupt, ver, "idx=%u off=%u out=-", idx, off); trhex("d", d, n); c20_trace_auth(); tr_end();
}
static void c20nv_read_client(Buf *b, int area_auth, uint32_t idx, uint32_t off, uint32_t n) {
    uint8_t auth[20]; c20nv_area_auth(auth, idx); int corrupt = c20nv_corrupt_max(4), ver = -1; const uint8_t *data = NULL; uint32_t dlen = 0;
    c20nv_have_main = 0; g12c_log.have_req = 0;
    if (area_auth) t12c_nv_read_auth(b, NULL, auth, idx, off, n, &data, &dlen, corrupt, &ver); else t12c_nv_read_owner(b, NULL, idx, off, n, &data, &dlen, corrupt, &ver);
    if (!c20nv_have_main) return;
    c20nv_trace_client(area_auth ? "readauth" : "read", corrupt, ver, "idx=%u off=%u n=%u", idx, off, n);
    const uint8_t *p; uint32_t k; c20nv_out(&c20nv_main, &p, &k); trhex("out", p, k); c20_trace_auth(); tr_end();
}
/* one random owner- or area-authorized NV operation */
static void c20nv_random_owner(Buf *b) {
    static uint8_t d[256];
    int slot = rnd(C20NV_POOL); uint32_t idx = c20nv_pool_index(slot), known = c20nv_note[slot].size, sz = known ? known : 16;
    if (sz > 200) sz = 200;
    switch (rnd(10)) {
    case 0: case 1: {
        static const uint32_t at[] = {NVP_OWNERWRITE, NVP_OWNERWRITE | NVP_OWNERREAD, NVP_AUTHWRITE, NVP_AUTHWRITE | NVP_AUTHREAD, NVP_OWNERWRITE | NVP_WRITEDEFINE,
            NVP_AUTHWRITE | NVP_WRITE_STCLEAR | NVP_READ_STCLEAR | NVP_AUTHREAD, NVP_OWNERWRITE | NVP_GLOBALLOCK | NVP_OWNERREAD | NVP_READ_STCLEAR, NVP_PPWRITE,
            NVP_AUTHWRITE | NVP_PPWRITE | NVP_WRITEALL, NVP_OWNERWRITE | NVP_AUTHWRITE, NVP_PPWRITE | NVP_AUTHREAD, NVP_AUTHWRITE | NVP_OWNERREAD};
        c20nv_define_owner(b, idx, at[rnd(sizeof at / sizeof at[0])], chance(85) ? 1 + rnd(40) : (uint32_t[]){0, 0, 0x7000, 300}[rnd(4)]); break; }
    case 2: case 3: case 4: {
        uint32_t off = rnd(sz), n = chance(15) ? 0 : 1 + rnd(sz - off); if (chance(10)) { off = 0; n = sz; } if (chance(5)) n += 3;
        if (n > sizeof d) n = sizeof d;
        if (chance(8)) { off = 0xFFFFFFF0u + rnd(16); n = 1 + rnd(0x20); if (n > sizeof d) n = sizeof d; }
        c20_rand_bytes(d, n);
        c20nv_write_client(b, chance(50), idx, off, d, n); break; }
    case 5: case 6: case 7: {
        uint32_t off = rnd(sz), n = chance(12) ? 0 : 1 + rnd(sz - off); if (chance(5)) n += 3;
        if (chance(10)) { off = 0xFFFFFFF0u + rnd(16); n = 1 + rnd(0x20); }        /* offset + size wraps around 32 bits, under a VALID authorization */
        c20nv_read_client(b, chance(50), idx, off, n); break; }
    case 8: {
        if (chance(50)) { c20_rand_bytes(d, 20); c20nv_write_client(b, 0, T12_NV_INDEX_DIR, 0, d, 20); }
        else if (chance(50)) c20nv_write_client(b, 0, 0, 0, d, 0);                 /* bGlobalLock through an owner-authorized write to index 0 */
        else c20nv_read_client(b, chance(50), T12_NV_INDEX_DIR, 0, 20);
        break; }
    default: {
        uint32_t off = rnd(sz), n = 1 + rnd(sz - off); if (n > sizeof d) n = sizeof d;
        int aa = (c20nv_note[slot].attrs & NVP_AUTHWRITE) ? 1 : 0;
        c20_rand_bytes(d, n); c20nv_write_client(b, aa, idx, off, d, n); c20nv_read_client(b, (c20nv_note[slot].attrs & NVP_AUTHREAD) ? 1 : 0, idx, off, n); break; }
    }
}

/* ---------- monotonic counters (owner histories): Model.Tpm12.Counter predicts rc, countID and value of every command ---------- */
static const uint8_t c20ctr_auth[20] = {0xC7, 0xC7, 1, 2, 3, 4, 5, 6, 7, 8, 9, 10, 11, 12, 13, 14, 15, 16, 17, 18};
static void c20ctr_trace(const char *name, uint32_t id, int corrupt, int ver, uint32_t value) {
    if (!c20nv_have_main) return;
    c20nv_have_main = 0;
    const Rsp *r = &c20nv_main;
    tr_begin("ctr name=%s loc=%d ret=%u rc=%u id=%u ok=%d value=%u stores=%ld hmac=%d", name, g_locality, r->ret, r->rc, id, corrupt ? 0 : 1, value, c20nv_main_stores, ver);
    c20_trace_auth(); tr_end();
}
static void c20ctr_random(Buf *b) {
    uint32_t id = chance(85) ? rnd(5) : (uint32_t[]){7, 8, 9, 100, 0xFFFFFFFFu, 0xFFFFFFFEu}[rnd(6)], v = 0;
    int corrupt = c20nv_corrupt_max(4), ver = -1;
    c20nv_have_main = 0; g12c_log.have_req = 0;
    switch (rnd(12)) {
    case 0: case 1: case 2: { uint32_t nid = 0; t12c_counter_create(b, c20ctr_auth, (const uint8_t *)"c20c", &nid, &v, corrupt, &ver); c20ctr_trace("create", nid, corrupt, ver, v); break; }
    case 3: case 4: case 5: case 6: t12c_counter_increment(b, NULL, id, c20ctr_auth, &v, corrupt, &ver); c20ctr_trace("increment", id, corrupt, ver, v); break;
    case 7: t12c_counter_release(b, NULL, id, c20ctr_auth, corrupt, &ver); c20ctr_trace("release", id, corrupt, ver, 0); break;
    case 8: t12c_counter_release_owner(b, NULL, id, corrupt, &ver); c20ctr_trace("releaseowner", id, corrupt, ver, 0); break;
    default: {
        t12_begin(b, T12_TAG0, T12_ORD_ReadCounter); b_u32(b, id);
        Rsp r = c20_run(b, "readcounter"); if (c20nv_skipped(&r)) return;
        if (r.rc == 0 && r.len >= 20) v = g32(r.p + 16);
        tr("ctr name=read loc=%d ret=%u rc=%u id=%u ok=1 value=%u stores=%ld hmac=-1", g_locality, r.ret, r.rc, id, v, g_store_perm_in_cmd);
        break; }
    }
}
static void c20ctr_audit(Buf *b) {
    for (uint32_t id = 0; id < 5; id++) {
        t12_begin(b, T12_TAG0, T12_ORD_ReadCounter); b_u32(b, id);
        Rsp r = c20_run(b, "readcounter"); if (c20nv_skipped(&r)) return;
        uint32_t v = (r.rc == 0 && r.len >= 20) ? g32(r.p + 16) : 0;
        tr("ctr name=read loc=%d ret=%u rc=%u id=%u ok=1 value=%u stores=%ld hmac=-1", g_locality, r.ret, r.rc, id, v, g_store_perm_in_cmd);
    }
}
static void c20nv_reset_notes(void) { memset(c20nv_note, 0, sizeof c20nv_note); c20nv_locked = 0; c20nv_owner = 0; c20nv_badauth = 0; c20nv_have_main = 0; }

#endif
