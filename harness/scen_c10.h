/* C10: PCR values follow the extend/reset/locality rules in every bank. Every operation is traced with its inputs and
 * return code; after every operation the affected PCR is read back in all banks (raw PCR_Read response), every so
 * often all 24 PCRs of all banks. The Lean model (Model.Pcr with the Lean SHA implementations) predicts every byte. */
static const uint16_t c10_algs[4] = { ALG_SHA1, ALG_SHA256, 0x000C, 0x000D };
static const int c10_dsz[4] = { 20, 32, 48, 64 };

static void c10_sel(Buf *b, int n, const uint16_t *alg, const uint8_t *sz, const uint32_t *mask) {
    b_u32(b, n); for (int i = 0; i < n; i++) { b_u16(b, alg[i]); b_u8(b, sz[i]); for (int q = 0; q < sz[i]; q++) b_u8(b, (mask[i] >> (8 * q)) & 0xff); }
}
/* PCR_Read of the given selections, traced raw */
static void c10_read(Buf *b, int n, const uint16_t *alg, const uint8_t *sz, const uint32_t *mask, const char *why) {
    cmd_begin(b, ST_NO_SESSIONS, CC_PCR_Read); c10_sel(b, n, alg, sz, mask);
    Rsp r = run(b);
    tr_begin("rd why=%s rc=%u sels=", why, r.rc); for (int i = 0; i < n; i++) fprintf(g_tr, "%s%u:%u:%u", i ? "," : "", alg[i], sz[i], mask[i]);
    trhex("rsp", r.p + 10, r.len >= 10 ? r.len - 10 : 0); tr_end();
}
static void c10_read_pcr(Buf *b, int pcr) {
    uint8_t sz[4] = {3, 3, 3, 3}; uint32_t m[4] = {1u << pcr, 1u << pcr, 1u << pcr, 1u << pcr};
    c10_read(b, 4, c10_algs, sz, m, "after");
}
static void c10_dump(Buf *b) {
    for (int a = 0; a < 4; a++) for (int g = 0; g < 3; g++) { uint8_t sz = 3; uint32_t m = 0xffu << (8 * g); c10_read(b, 1, &c10_algs[a], &sz, &m, "dump"); }
}
static uint32_t c10_sigkey(Buf *b) {
    Buf t = {0}; b_u16(&t, ALG_KEYEDHASH); b_u16(&t, ALG_SHA256); b_u32(&t, 0x00040472u); b_u16(&t, 0); b_u16(&t, ALG_HMAC); b_u16(&t, ALG_SHA256); b_u16(&t, 0);
    cmd_begin(b, ST_SESSIONS, CC_CreatePrimary); b_u32(b, RH_NULL); auth_pw(b, "", 0); b_u16(b, 4); b_u16(b, 0); b_u16(b, 0); b_2b(b, t.p, t.n); b_u16(b, 0); b_u32(b, 0);
    Rsp r = run(b); b_free(&t); return r.rc == 0 ? g32(r.p + 10) : 0;
}
static void c10_startup(Buf *b, int state, int loc) {
    g_locality = loc; Rsp r = tpm2_startup(b, state ? 1 : 0); g_locality = 0;
    tr("startup state=%d loc=%d rc=%u", state, loc, r.rc);
}
static void scen_c10(int histories, int rounds) {
    Buf b = {0};
    for (int h = 0; h < histories; h++) {
        tr("hist %d", h);
        tpm2_fresh(h % 2 ? PROFILE_DEFAULT_V1 : NULL); g_locality = 0;
        int started = 0;
        if (chance(30)) { /* H-CRTM before the first Startup */
            uint8_t d[40]; int n = rnd(41); for (int q = 0; q < n; q++) d[q] = rnd(256);
            TPM_RESULT r1 = TPM_IO_Hash_Start(), r2 = TPM_IO_Hash_Data(d, n), r3 = TPM_IO_Hash_End();
            tr_begin("hashseq started=0 r=%u/%u/%u interrupted=0", r1, r2, r3); trhex("data", d, n); tr_end();
        }
        c10_startup(&b, 0, chance(25) ? 3 : 0); started = 1;
        c10_dump(&b);
        uint32_t sigkey = 0;
        for (int i = 0; i < rounds; i++) {
            int pcr = chance(60) ? (int[]){0, 7, 10, 15, 16, 17, 18, 19, 20, 21, 22, 23}[rnd(12)] : rnd(24);
            int loc = chance(55) ? 0 : rnd(5);
            int op = rnd(100);
            if (op < 30) { /* PCR_Extend with digests for a subset of banks */
                int mask = 1 + rnd(15); int cnt = 0; for (int a = 0; a < 4; a++) if (mask >> a & 1) cnt++;
                g_locality = loc; cmd_begin(&b, ST_SESSIONS, CC_PCR_Extend); b_u32(&b, pcr); auth_pw(&b, "", 0); b_u32(&b, cnt);
                Buf dg = {0};
                for (int a = 0; a < 4; a++) if (mask >> a & 1) { b_u16(&b, c10_algs[a]); for (int q = 0; q < c10_dsz[a]; q++) { uint8_t x = rnd(256); b_u8(&b, x); b_u8(&dg, x); } }
                Rsp r = run(&b); g_locality = 0;
                tr_begin("extend pcr=%d loc=%d banks=%d rc=%u", pcr, loc, mask, r.rc); trhex("digests", dg.p, dg.n); tr_end(); b_free(&dg);
                c10_read_pcr(&b, pcr);
            } else if (op < 42) { /* PCR_Event */
                uint8_t d[64]; int n = rnd(65); for (int q = 0; q < n; q++) d[q] = rnd(256);
                g_locality = loc; cmd_begin(&b, ST_SESSIONS, CC_PCR_Event); b_u32(&b, pcr); auth_pw(&b, "", 0); b_2b(&b, d, n);
                Rsp r = run(&b); g_locality = 0;
                tr_begin("event pcr=%d loc=%d rc=%u", pcr, loc, r.rc); trhex("data", d, n); trhex("rsp", r.p + 10, r.len >= 10 ? r.len - 10 : 0); tr_end();
                c10_read_pcr(&b, pcr);
            } else if (op < 54) { /* PCR_Reset */
                g_locality = loc; cmd_begin(&b, ST_SESSIONS, CC_PCR_Reset); b_u32(&b, pcr); auth_pw(&b, "", 0);
                Rsp r = run(&b); g_locality = 0;
                tr("reset pcr=%d loc=%d rc=%u", pcr, loc, r.rc);
                c10_read_pcr(&b, pcr);
            } else if (op < 62) { /* PCR_Read with random selections (more than 8 PCRs, odd sizeofSelect, unallocated banks) */
                int n = 1 + rnd(4); uint16_t alg[4]; uint8_t sz[4]; uint32_t m[4];
                for (int q = 0; q < n; q++) { alg[q] = c10_algs[rnd(4)]; sz[q] = chance(70) ? 3 : 1 + rnd(3); m[q] = chance(50) ? (uint32_t)rnd64() & 0xffffff : (1u << rnd(24)) | (1u << rnd(24)); if (sz[q] < 3) m[q] &= (1u << (8 * sz[q])) - 1; }
                c10_read(&b, n, alg, sz, m, "random");
            } else if (op < 67) { /* event sequence: HashSequenceStart(NULL) / SequenceUpdate / EventSequenceComplete */
                cmd_begin(&b, ST_NO_SESSIONS, CC_HashSequenceStart); b_u16(&b, 0); b_u16(&b, ALG_NULL); Rsp r = run(&b);
                if (r.rc == 0) { uint32_t sh = g32(r.p + 10); Buf all = {0}; int chunks = rnd(3);
                    for (int c = 0; c < chunks; c++) { uint8_t d[48]; int n = 1 + rnd(48); for (int q = 0; q < n; q++) d[q] = rnd(256);
                        cmd_begin(&b, ST_SESSIONS, CC_SequenceUpdate); b_u32(&b, sh); auth_pw(&b, "", 0); b_2b(&b, d, n); if (run(&b).rc == 0) b_bytes(&all, d, n); }
                    uint8_t d[32]; int n = rnd(33); for (int q = 0; q < n; q++) d[q] = rnd(256); b_bytes(&all, d, n);
                    g_locality = loc; cmd_begin(&b, ST_SESSIONS, CC_EventSequenceComplete); b_u32(&b, pcr); b_u32(&b, sh);
                    { size_t at = b.n; b_u32(&b, 0); for (int s2 = 0; s2 < 2; s2++) { b_u32(&b, 0x40000009u); b_u16(&b, 0); b_u8(&b, 0); b_u16(&b, 0); } b_put32(&b, at, (uint32_t)(b.n - at - 4)); }
                    b_2b(&b, d, n); Rsp r2 = run(&b); g_locality = 0;
                    tr_begin("event pcr=%d loc=%d rc=%u seq=1", pcr, loc, r2.rc); trhex("data", all.p, all.n); trhex("rsp", r2.p + 10, r2.len >= 10 ? r2.len - 10 : 0); tr_end();
                    if (r2.rc != 0) { cmd_begin(&b, ST_NO_SESSIONS, CC_FlushContext); b_u32(&b, sh); run(&b); }
                    b_free(&all); c10_read_pcr(&b, pcr); }
            } else if (op < 73) { /* DRTM: TPM_IO_Hash_Start/Data/End after Startup, sometimes interrupted by a command */
                uint8_t d[40]; int n = rnd(41); for (int q = 0; q < n; q++) d[q] = rnd(256);
                int interrupted = chance(20);
                TPM_RESULT r1 = TPM_IO_Hash_Start(), r2 = TPM_IO_Hash_Data(d, n / 2);
                if (interrupted) { uint8_t sz = 3; uint32_t m = 1; c10_read(&b, 1, &c10_algs[1], &sz, &m, "interrupt"); }
                TPM_RESULT r2b = TPM_IO_Hash_Data(d + n / 2, n - n / 2), r3 = TPM_IO_Hash_End();
                tr_begin("hashseq started=%d r=%u/%u/%u interrupted=%d", started, r1, r2 | r2b, r3, interrupted); trhex("data", d, n); tr_end();
                c10_dump(&b);
            } else if (op < 80) { /* PCR_Allocate */
                int n = 1 + rnd(4); uint16_t alg[4]; uint8_t sz[4]; uint32_t m[4]; int used = 0;
                for (int q = 0; q < n; q++) { int a; do a = rnd(4); while (used >> a & 1); used |= 1 << a; alg[q] = c10_algs[a]; sz[q] = 3;
                    m[q] = chance(40) ? 0xffffff : chance(40) ? 0 : ((uint32_t)rnd64() & 0xffffff) | (chance(80) ? (1u | 1u << 17) : 0); }
                cmd_begin(&b, ST_SESSIONS, CC_PCR_Allocate); b_u32(&b, RH_PLATFORM); auth_pw(&b, "", 0); c10_sel(&b, n, alg, sz, m);
                Rsp r = run(&b);
                tr_begin("allocate rc=%u req=", r.rc); for (int q = 0; q < n; q++) fprintf(g_tr, "%s%u:%u", q ? "," : "", alg[q], m[q]);
                trhex("rsp", r.p + 10, r.len >= 10 ? r.len - 10 : 0); tr_end();
                if (chance(50)) c10_dump(&b);
            } else if (op < 90) { /* Shutdown / restart / Startup in every combination, with and without H-CRTM, locality 0 or 3 */
                int sd = rnd(3);   /* 0: no shutdown, 1: CLEAR, 2: STATE */
                if (sd) { Rsp r = tpm2_shutdown(&b, sd == 2 ? 1 : 0); tr("shutdown state=%d rc=%u", sd == 2, r.rc); }
                if (chance(15)) { /* a PCR command between Shutdown and the power cut (clears the orderly state when the PCR is state-saved) */
                    int p2 = chance(50) ? rnd(16) : 16 + rnd(8); uint8_t x[32]; for (int q = 0; q < 32; q++) x[q] = rnd(256);
                    cmd_begin(&b, ST_SESSIONS, CC_PCR_Extend); b_u32(&b, p2); auth_pw(&b, "", 0); b_u32(&b, 1); b_u16(&b, ALG_SHA256); b_bytes(&b, x, 32);
                    Rsp r = run(&b); tr_begin("extend pcr=%d loc=0 banks=2 rc=%u", p2, r.rc); trhex("digests", x, 32); tr_end(); }
                TPM_RESULT pr = tpm2_powercycle(); tr("powercycle ret=%u", pr); started = 0; sigkey = 0;
                if (chance(25)) { uint8_t d[40]; int n = rnd(41); for (int q = 0; q < n; q++) d[q] = rnd(256);
                    TPM_RESULT r1 = TPM_IO_Hash_Start(), r2 = TPM_IO_Hash_Data(d, n), r3 = TPM_IO_Hash_End();
                    tr_begin("hashseq started=0 r=%u/%u/%u interrupted=0", r1, r2, r3); trhex("data", d, n); tr_end(); }
                int st = chance(50), l = chance(25) ? 3 : chance(10) ? 1 + rnd(4) : 0;
                c10_startup(&b, st, l);
                cmd_begin(&b, ST_NO_SESSIONS, CC_PCR_Read); b_u32(&b, 0); Rsp pr2 = run(&b);
                if (pr2.rc == 0x100) { /* that Startup was refused: the TPM still waits for one */
                    c10_startup(&b, 0, l == 3 ? 3 : 0);
                    cmd_begin(&b, ST_NO_SESSIONS, CC_PCR_Read); b_u32(&b, 0); if (run(&b).rc == 0x100) c10_startup(&b, 0, 0); }
                started = 1; c10_dump(&b);
            } else if (op < 94) { /* suspend / resume through the state blobs */
                TPM_RESULT r = tpm2_suspend_resume(NULL, NULL); tr("resume ret=%u", r); sigkey = 0;
                if (chance(50)) c10_dump(&b); else c10_read_pcr(&b, pcr);
            } else if (op < 97) { /* Quote over a random selection */
                if (!sigkey) sigkey = c10_sigkey(&b);
                if (sigkey) { int n = 1 + rnd(3); uint16_t alg[4]; uint8_t sz[4]; uint32_t m[4];
                    for (int q = 0; q < n; q++) { alg[q] = c10_algs[rnd(4)]; sz[q] = 3; m[q] = chance(50) ? (uint32_t)rnd64() & 0xffffff : (1u << rnd(24)) | (1u << rnd(24)); }
                    cmd_begin(&b, ST_SESSIONS, CC_Quote); b_u32(&b, sigkey); auth_pw(&b, "", 0); b_u16(&b, 0); b_u16(&b, ALG_NULL); c10_sel(&b, n, alg, sz, m);
                    Rsp r = run(&b);
                    tr_begin("quote rc=%u sels=", r.rc); for (int q = 0; q < n; q++) fprintf(g_tr, "%s%u:%u:%u", q ? "," : "", alg[q], sz[q], m[q]);
                    trhex("rsp", r.p + 10, r.len >= 10 ? r.len - 10 : 0); tr_end(); }
            } else { /* PCR_SetAuthValue / PCR_SetAuthPolicy: no PCR of this platform is in an auth or policy group */
                if (chance(50)) { cmd_begin(&b, ST_SESSIONS, 0x183 /* PCR_SetAuthValue */); b_u32(&b, pcr); auth_pw(&b, "", 0); b_2b(&b, "abc", 3); Rsp r = run(&b); tr("setauthvalue pcr=%d rc=%u", pcr, r.rc); }
                else { uint8_t pol[32] = {0}; cmd_begin(&b, ST_SESSIONS, 0x12C /* PCR_SetAuthPolicy */); b_u32(&b, RH_PLATFORM); auth_pw(&b, "", 0); b_2b(&b, pol, 32); b_u16(&b, ALG_SHA256); b_u32(&b, pcr); Rsp r = run(&b); tr("setauthpolicy pcr=%d rc=%u", pcr, r.rc); }
            }
            if (i % 25 == 24) c10_dump(&b);
        }
        c10_dump(&b);
    }
    g_locality = 0; b_free(&b);
}
