/* C01: every byte string sent as a command gets a well-formed answer; no crash, no failure mode */
static void c01_send(const uint8_t *cmd, uint32_t n, int started) {
    Rsp r = run_raw(cmd, n);
    tr_begin("x loc=%d started=%d ret=%u bufsize=%u infail=%d", g_locality, started, r.ret, r.bufsize, g_inFailureMode);
    trhex("req", cmd, n); trhex("rsp", r.p, r.len); tr_end();
}
static void c01_mutate_and_send(Buf *last, int started) {
    Buf m = {0}; b_bytes(&m, last->p, last->n);
    if (m.n < 10) { b_free(&m); return; }
    switch (rnd(12)) {
    case 0: m.p[rnd(m.n)] ^= 1 << rnd(8); break;
    case 1: m.n = rnd(m.n); break;                                   /* truncated, size field stale */
    case 2: m.n = 10 + rnd(m.n - 9) % (m.n - 9); b_put32(&m, 2, (uint32_t)m.n); break;   /* truncated, size field consistent */
    case 3: { int k = 1 + rnd(8); for (int i = 0; i < k; i++) b_u8(&m, rnd(256)); b_put32(&m, 2, (uint32_t)m.n); break; }   /* over-long */
    case 4: b_put16(&m, 0, chance(50) ? (g16(m.p) ^ 3) : (uint16_t)rnd(65536)); break;                               /* tag */
    case 5: b_put32(&m, 2, chance(50) ? (uint32_t)rnd64() : (uint32_t)m.n + (int)rnd(5) - 2); break;                    /* size */
    case 6: b_put32(&m, 6, chance(60) ? 0x11F + rnd(0x80) : (uint32_t)rnd64()); break;                               /* command code */
    case 7: if (m.n >= 14) b_put32(&m, 10, (uint32_t[]){0, 0x40000001, 0x40000007, 0x4000000A, 0x80000000, 0x80000002, 0x81000000, 0x01400000, 0x02000000, 0x03000001, 0xFFFFFFFF}[rnd(11)]); break;
    case 8: if (g16(m.p) == ST_SESSIONS && m.n >= 18) { size_t o = 10; /* find authSize heuristically: try after 1 or 2 handles */ o += 4 * (1 + rnd(2)); if (o + 4 <= m.n) b_put32(&m, o, (uint32_t[]){0, 8, 9, 10, 0x7fffffff, 0xffffffff}[rnd(6)]); } break;
    case 9: { /* a 16-bit length somewhere set to a boundary value */ size_t o = 10 + rnd(m.n - 10 ? m.n - 10 : 1); if (o + 2 <= m.n) b_put16(&m, o, (uint16_t[]){0, 1, 0x7fff, 0x8000, 0xffff, 1024, 1025, 4096}[rnd(8)]); break; }
    case 10: { /* session attributes: decrypt/encrypt/audit bits */ if (g16(m.p) == ST_SESSIONS && m.n > 24) m.p[m.n - 3 - rnd(8)] |= 0x20 << rnd(3); break; }
    default: { size_t o = rnd(m.n), k = 1 + rnd(6); for (size_t i = 0; i < k && o + i < m.n; i++) m.p[o + i] = rnd(256); break; }
    }
    c01_send(m.p, (uint32_t)m.n, started);
    b_free(&m);
}
static void c04_policy_rounds(Buf *b, int rounds);
static void scen_c04(int histories, int rounds);
static void scen_c12(int histories, int rounds, int thorough);
#include "scen_c01_tour.h"
static void scen_c01(int histories, int prefix, int stream) {
    g_gen_host_rng_ok = 1;
    Buf b = {0}, last = {0}; World w; memset(&w, 0, sizeof w);
    for (int h = 0; h < histories; h++) {
        /* a whole authorization history of C04 (HMAC, bound, salted sessions, XOR and AES parameter encryption, two-session commands,
           policy sessions) with every command and response framed */
        if (h % 4 == 1) { g_locality = 0; g_trace_x = 1; scen_c04(1, 24); g_trace_x = 0; }
        /* and one in four an object history of C12 (primaries, children, Duplicate/Import, CreateLoaded, restarts, Clear, seed changes) */
        if (h % 4 == 2) { g_locality = 0; g_trace_x = 1; scen_c12(1, 40, 0); g_trace_x = 0; }
        tr("hist %d profile=%d", h, h % 3); w_reset(&w); g_locality = 0;
        tpm2_fresh(h % 3 == 0 ? NULL : (h % 3 == 1 ? PROFILE_DEFAULT_V1 : PROFILE_CUSTOM));
        int started = 1;
        if (h % 5 == 4) {   /* a stretch before TPM2_Startup */
            started = 0;
            for (int i = 0; i < 30; i++) { cmd_begin(&b, ST_NO_SESSIONS, 0x11F + rnd(0x80)); int k = rnd(12); for (int q = 0; q < k; q++) b_u8(&b, rnd(256)); b_put32(&b, 2, (uint32_t)b.n); c01_send(b.p, (uint32_t)b.n, 0); }
            started = 1;
        }
        tpm2_startup(&b, 0);
        if (h % 2 == 0) {   /* authorized histories (HMAC-protected policy sessions, a command that deletes the entity authorizing it) */
            g_trace_x = 1; c04_policy_rounds(&b, 40); g_trace_x = 0;
        }
        if (h % 4 == 3 || (h % 4 == 0 && h > 0)) { g_trace_x = 1; c01_valid_tour(&b); g_trace_x = 0; }   /* commands no other scenario completes */
        for (int i = 0; i < prefix; i++) gen_op(&w, &b);
        for (int i = 0; i < stream; i++) {
            g_locality = chance(70) ? 0 : rnd(5);
            long ops0 = w.ops;
            if (chance(60)) {
                gen_op(&w, &b);
                if (w.ops != ops0) {
                    b_reset(&last); b_bytes(&last, b.p, b.n);
                    /* the valid command's own response is checked too */
                    tr_begin("x loc=%d started=%d ret=0 bufsize=%u infail=%d", g_locality, started, g_respbufsize, g_inFailureMode);
                    trhex("req", last.p, last.n); trhex("rsp", g_respbuf, g32(g_respbuf + 2) <= g_respbufsize ? g32(g_respbuf + 2) : 10); tr_end();
                }
            }
            if (last.n >= 10) { int k = 1 + rnd(4); for (int q = 0; q < k; q++) c01_mutate_and_send(&last, started); }
            if (chance(15)) { /* every command code with a garbage / empty body */
                cmd_begin(&b, chance(70) ? ST_NO_SESSIONS : ST_SESSIONS, 0x11F + rnd(0x80)); int k = rnd(40); for (int q = 0; q < k; q++) b_u8(&b, rnd(256));
                b_put32(&b, 2, (uint32_t)b.n); c01_send(b.p, (uint32_t)b.n, started); }
            if (chance(5)) { uint8_t g[64]; int n = rnd(64); for (int q = 0; q < n; q++) g[q] = rnd(256); c01_send(g, n, started); }
            /* some mutated commands succeed and change the TPM behind the client's back: keep going, the oracle is per response */
        }
    }
    g_locality = 0;
    w_reset(&w); b_free(&b); b_free(&last);
}
