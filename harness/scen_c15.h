/* C15: the library API honours its documented contract in every permitted call order. Sequences over the public entry
 * points (exhaustive to a depth, sampled beyond), both TPM versions; every call is traced with its result, the Lean
 * model (Model.Api) predicts the contract-relevant part; GetInfo output is validated as JSON and DecodeBlob compared
 * with the Lean base64 reader. */
static uint8_t *c15_good[2][3]; static uint32_t c15_goodn[2][3];   /* [version idx][perm, vol, save] blobs of a started TPM */
static int c15_ver;        /* current choice: 0 = 1.2, 1 = 2 */
static int c15_locked, c15_running, c15_started;

static void c15_id(const uint8_t *p, uint32_t n, char out[20]) {
    if (!p) { strcpy(out, "-"); return; }
    uint8_t d[32]; SHA256(p, n, d); for (int i = 0; i < 8; i++) sprintf(out + 2 * i, "%02x", d[i]);
}
static void c15_stor(void) {
    char a[20], b2[20], c[20];
    c15_id(g_store[ST_PERM].present ? g_store[ST_PERM].p : NULL, g_store[ST_PERM].n, a);
    c15_id(g_store[ST_VOL].present ? g_store[ST_VOL].p : NULL, g_store[ST_VOL].n, b2);
    c15_id(g_store[ST_SAVE].present ? g_store[ST_SAVE].p : NULL, g_store[ST_SAVE].n, c);
    tr("stor p=%s v=%s s=%s", a, b2, c);
}
static Rsp c15_startup_cmd(Buf *b) {
    if (c15_ver == 1) return tpm2_startup(b, 0);
    b_reset(b); b_u16(b, 0x00C1); b_u32(b, 12); b_u32(b, 0x99); b_u16(b, 0x0001); return run_raw(b->p, (uint32_t)b->n);
}
static void c15_make_good(Buf *b) {
    for (int v = 0; v < 2; v++) {
        TPMLIB_Terminate(); storage_reset();
        TPMLIB_ChooseTPMVersion(v ? TPMLIB_TPM_VERSION_2 : TPMLIB_TPM_VERSION_1_2); TPMLIB_RegisterCallbacks(&g_cbs);
        if (TPMLIB_MainInit() != TPM_SUCCESS) die("c15 maininit v%d", v);
        c15_ver = v; c15_startup_cmd(b);
        for (int t = 0; t < 3; t++) { unsigned char *p = NULL; uint32_t n = 0; TPM_RESULT r = TPMLIB_GetState(1 << t, &p, &n);
            free(c15_good[v][t]); c15_good[v][t] = NULL; c15_goodn[v][t] = 0;
            if (r == TPM_SUCCESS && p) { c15_good[v][t] = p; c15_goodn[v][t] = n; } else free(p); }
        TPMLIB_Terminate();
    }
    char id[20];
    for (int v = 0; v < 2; v++) for (int t = 0; t < 3; t++) { c15_id(c15_good[v][t], c15_goodn[v][t], id); tr("good ver=%d st=%d id=%s len=%u", v ? 2 : 12, 1 << t, id, c15_goodn[v][t]); }
}
/* back to the state of a freshly loaded library (as far as the API allows) */
static void c15_reset(void) {
    TPMLIB_Terminate(); storage_reset();
    TPMLIB_ChooseTPMVersion(TPMLIB_TPM_VERSION_2); TPMLIB_SetBufferSize(0xffffffffu, NULL, NULL);
    TPMLIB_ChooseTPMVersion(TPMLIB_TPM_VERSION_1_2); TPMLIB_SetBufferSize(0xffffffffu, NULL, NULL);   /* each switch clears the blob cache */
    TPMLIB_RegisterCallbacks(&g_cbs);
    c15_ver = 0; c15_locked = c15_running = c15_started = 0;
    tr("reset");
}
#define C15_NOPS 20
static int c15_validate_st;   /* drills: the state types ValidateState is asked about */
static void c15_op(Buf *b, int op) {
    char id[20];
    switch (op) {
    case 0: case 1: case 2: { int want = op == 0 ? TPMLIB_TPM_VERSION_1_2 : op == 1 ? TPMLIB_TPM_VERSION_2 : 7;
        TPM_RESULT r = TPMLIB_ChooseTPMVersion(want); if (r == TPM_SUCCESS) c15_ver = op;
        tr("api op=choose ver=%d ret=%u", op == 0 ? 12 : op == 1 ? 2 : 7, r); break; }
    case 3: { if (c15_locked) { tr("api op=skip"); break; }
        TPM_RESULT r = TPMLIB_MainInit(); c15_locked = 1; c15_running = r == TPM_SUCCESS; c15_started = 0;
        tr("api op=maininit ret=%u manufactured=%d", r, r == TPM_SUCCESS ? TPMLIB_WasManufactured() : 0); break; }
    case 4: TPMLIB_Terminate(); c15_locked = c15_running = c15_started = 0; tr("api op=terminate"); break;
    case 5: case 8: case 10: { int t = op == 5 ? 0 : op == 8 ? 1 : 2; const uint8_t *p = c15_good[c15_ver][t]; uint32_t n = c15_goodn[c15_ver][t];
        if (!p) { p = c15_good[c15_ver][0]; n = c15_goodn[c15_ver][0]; }   /* TPM 2 has no save-state blob: any bytes */
        TPM_RESULT r = TPMLIB_SetState(1 << t, p, n); c15_id(p, n, id);
        tr("api op=setstate st=%d kind=valid ret=%u id=%s", 1 << t, r, id); break; }
    case 6: case 9: { int t = op == 6 ? 0 : 1; TPM_RESULT r = TPMLIB_SetState(1 << t, NULL, 0); tr("api op=setstate st=%d kind=null ret=%u id=-", 1 << t, r); break; }
    case 7: { uint8_t g[64]; int n = 1 + rnd(64); for (int i = 0; i < n; i++) g[i] = rnd(256); int t = rnd(2);
        TPM_RESULT r = TPMLIB_SetState(1 << t, g, n); c15_id(g, n, id); tr("api op=setstate st=%d kind=garbage ret=%u id=%s", 1 << t, r, id); break; }
    case 11: case 12: case 13: { int t = op - 11; unsigned char *p = NULL; uint32_t n = 0; TPM_RESULT r = TPMLIB_GetState(1 << t, &p, &n);
        c15_id(r == TPM_SUCCESS ? p : NULL, n, id); tr("api op=getstate st=%d ret=%u id=%s len=%u null=%d", 1 << t, r, id, n, p == NULL); free(p); break; }
    case 14: { static const uint32_t W[] = {0, 1, 100, 2999, 3000, 3071, 3072, 3073, 4095, 4096, 4097, 5000, 0x7fffffff, 0xffffffff, 2048 + 128, 2048 + 127, 2048 + 129};
        uint32_t w = chance(70) ? W[rnd(17)] : (uint32_t)rnd(6000), mn = 0, mx = 0; uint32_t r = TPMLIB_SetBufferSize(w, &mn, &mx);
        tr("api op=setbuf want=%u ret=%u min=%u max=%u", w, r, mn, mx); break; }
    case 15: case 17: { if (!c15_running) { tr("api op=skip"); break; }
        /* a command through every kind of caller buffer */
        int kind = rnd(5); unsigned char *rb = NULL; uint32_t rs = 0, rbs = 0;
        if (kind == 1) { rb = malloc(10); rbs = 10; } else if (kind == 2) { rb = malloc(4096); rbs = 4096; } else if (kind == 3) { rb = malloc(8192); rbs = 8192; } else if (kind == 4) { rb = NULL; rbs = 100000; }
        b_reset(b);
        if (!c15_started) { if (c15_ver == 1) { b_u16(b, ST_NO_SESSIONS); b_u32(b, 12); b_u32(b, CC_Startup); b_u16(b, 0); } else { b_u16(b, 0x00C1); b_u32(b, 12); b_u32(b, 0x99); b_u16(b, 1); } }
        else if (c15_ver == 1) { b_u16(b, ST_NO_SESSIONS); b_u32(b, 22); b_u32(b, CC_GetCapability); b_u32(b, 6); b_u32(b, 0x11E); b_u32(b, 2); }
        else { b_u16(b, 0x00C1); b_u32(b, 22); b_u32(b, 0x65); b_u32(b, 5); b_u32(b, 4); b_u32(b, 0x124); }
        unsigned char *cmd = malloc(b->n); memcpy(cmd, b->p, b->n);
        TPM_RESULT r = TPMLIB_Process(&rb, &rs, &rbs, cmd, (uint32_t)b->n); free(cmd);
        uint32_t rc = rb && rs >= 10 ? g32(rb + 6) : 0xffffffff, hs = rb && rs >= 10 ? g32(rb + 2) : 0;
        tr_begin("api op=process kind=%d started=%d ret=%u respsize=%u bufsize=%u bufnull=%d hdrsize=%u rc=%u", kind, c15_started, r, rs, rbs, rb == NULL, hs, rc);
        if (rb && rs <= 64) trhex("rsp", rb, rs); tr_end();
        if (r == TPM_SUCCESS && rc == 0) c15_started = 1;
        free(rb); break; }
    case 16: { int flags = chance(30) ? rnd(256) : (int[]){0, 1, 2, 3, 4, 8, 16, 32, 64, 128, 255, 0xa0, 0xc0, 0xe0, 0x7f}[rnd(15)];
        char *js = TPMLIB_GetInfo(flags);
        tr_begin("api op=getinfo flags=%d null=%d", flags, js == NULL); if (js) trhex("json", (uint8_t *)js, strlen(js)); tr_end(); free(js); break; }
    case 18: { if (c15_ver != 1) { TPM_RESULT r = TPMLIB_SetProfile("{\"Name\":\"null\"}"); tr("api op=setprofile kind=tpm12 ret=%u", r); break; }
        int k = rnd(3); const char *p = k == 0 ? PROFILE_NULL : k == 1 ? PROFILE_DEFAULT_V1 : "{\"Name\":\"no-such-profile\"}";
        TPM_RESULT r = TPMLIB_SetProfile(p); tr("api op=setprofile kind=%d ret=%u", k, r); break; }
    default: { int st = c15_validate_st ? c15_validate_st : 1 + rnd(3); TPM_RESULT r = TPMLIB_ValidateState(st, 0); tr("api op=validate st=%d ret=%u", st, r); break; }
    }
    c15_stor();
}
/* DecodeBlob: proper encodings, junk, truncations, tag games */
static void c15_decode(int n) {
    static const char *B64 = "ABCDEFGHIJKLMNOPQRSTUVWXYZabcdefghijklmnopqrstuvwxyz0123456789+/";
    for (int i = 0; i < n; i++) {
        uint8_t data[200]; int dl = chance(20) ? rnd(4) : rnd(200); for (int q = 0; q < dl; q++) data[q] = rnd(256);
        char text[1200]; int tl = 0; int variant = rnd(12);
        if (variant != 1) tl += sprintf(text + tl, "%s%s", chance(30) ? "junk before\n" : "", "-----BEGIN INITSTATE-----\n");
        int col = 0;
        for (int q = 0; q < dl; q += 3) { int rem = dl - q; uint32_t v = data[q] << 16 | (rem > 1 ? data[q + 1] << 8 : 0) | (rem > 2 ? data[q + 2] : 0);
            char g[5] = { B64[v >> 18], B64[v >> 12 & 63], rem > 1 ? B64[v >> 6 & 63] : '=', rem > 2 ? B64[v & 63] : '=', 0 };
            if (variant == 2 && rem <= 2) { for (int z = 0; z < 4; z++) if (g[z] == '=') g[z] = 0; }      /* padding left out */
            tl += sprintf(text + tl, "%s", g); col += 4; if (col >= 64 && variant != 3) { text[tl++] = chance(80) ? '\n' : '\r'; col = 0; } }
        if (variant == 4 && tl > 30) text[26 + rnd(tl - 26)] = " \t\n#%*"[rnd(6)];            /* a character replaced by junk */
        if (variant == 5 && tl > 30) { int at = 26 + rnd(tl - 26); memmove(text + at + 1, text + at, tl - at); text[at] = "\n \t-_."[rnd(6)]; tl++; }   /* junk inserted */
        if (variant == 6 && tl > 30) text[26 + rnd(tl - 26)] = '=';                                 /* padding in the middle */
        if (variant == 7 && tl > 30) tl = 26 + rnd(tl - 26);                                        /* truncated payload */
        if (variant != 8) tl += sprintf(text + tl, "%s-----END INITSTATE-----%s", chance(70) ? "\n" : "", chance(30) ? "\ntrailing" : "");
        if (variant == 9) { memcpy(text + 5, "END  ", 5); }                                         /* start tag spoiled */
        text[tl] = 0;
        unsigned char *out = NULL; size_t ol = 0; TPM_RESULT r = TPMLIB_DecodeBlob(text, TPMLIB_BLOB_TYPE_INITSTATE, &out, &ol);
        tr_begin("decode variant=%d ret=%u", variant, r); trhex("text", (uint8_t *)text, tl); trhex("data", data, dl); if (r == TPM_SUCCESS) trhex("out", out, ol); tr_end();
        free(out);
    }
}
static void scen_c15(int depth, int sampled, int sampled_len, int shard, int nshards) {
    g_tpm2_statics = 0;   /* C15 is about call orders within one process */
    Buf b = {0}; TPMLIB_SetDebugLevel(0);
    c15_make_good(&b);
    /* exhaustive: every sequence of `depth` operations, each from a reset library; shards split the first operation */
    long total = 1; for (int d = 0; d < depth; d++) total *= C15_NOPS;
    for (long s = 0; s < total; s++) {
        if ((s % nshards) != (shard % nshards)) continue;
        c15_reset(); long x = s; for (int d = 0; d < depth; d++) { c15_op(&b, (int)(x % C15_NOPS)); x /= C15_NOPS; }
    }
    /* drills around ValidateState: what SetState cached (a blob or the 'hide' marker) is still there for GetState and MainInit */
    for (int v = 0; v < 2; v++) for (int vst = 1; vst <= 3; vst++) for (int nullvol = 0; nullvol < 2; nullvol++) for (int stored = 0; stored < 2; stored++) {
        c15_reset(); c15_op(&b, v);
        if (stored) { c15_op(&b, 3); c15_op(&b, 15); c15_op(&b, 4); }   /* a started and terminated TPM leaves its state in storage */
        c15_op(&b, 5); c15_op(&b, nullvol ? 9 : 8);
        c15_validate_st = vst; c15_op(&b, 19); c15_validate_st = 0;
        c15_op(&b, 12); c15_op(&b, 11); c15_op(&b, 3); c15_op(&b, 15); c15_op(&b, 12); }
    /* drills around the save-state blob: MainInit does not consume it, the first TPM_Startup of a TPM 1.2 does */
    for (int v = 0; v < 2; v++) for (int withstartup = 0; withstartup < 2; withstartup++) for (int nullblob = 0; nullblob < 2; nullblob++) {
        c15_reset(); c15_op(&b, v); c15_op(&b, 5);
        if (nullblob) { TPM_RESULT r = TPMLIB_SetState(TPMLIB_STATE_SAVE_STATE, NULL, 0); tr("api op=setstate st=4 kind=null ret=%u id=-", r); c15_stor(); } else c15_op(&b, 10);
        c15_op(&b, 13); c15_op(&b, 3); if (withstartup) c15_op(&b, 15); c15_op(&b, 13); c15_op(&b, 4); c15_op(&b, 13); c15_op(&b, 11); c15_op(&b, 12); }
    /* sampled: longer random sequences biased towards running TPMs */
    for (int i = 0; i < sampled; i++) { c15_reset(); int len = 4 + rnd(sampled_len);
        for (int d = 0; d < len; d++) { int op = chance(25) ? (int[]){3, 4, 15, 5, 11}[rnd(5)] : rnd(C15_NOPS); c15_op(&b, op); } }
    c15_decode(sampled * 3);
    TPMLIB_Terminate(); storage_reset(); b_free(&b);
}
