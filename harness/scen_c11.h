/* C11: session slot accounting and saved-context validity (Session.c / ContextCommands.c) */
extern uint64_t verif_get_contextCounter(void); extern void verif_set_contextCounter(uint64_t);
extern int verif_get_proof(uint32_t hierarchy, uint8_t *out); extern uint64_t verif_get_totalResetCount(void); extern uint32_t verif_get_clearCount(void);
extern unsigned verif_get_slotmask(void); extern void verif_set_slotmask(unsigned); extern unsigned verif_get_contextArray(unsigned);

typedef struct { uint8_t *p; uint32_t n; uint32_t h; uint64_t seq; int live; int epoch; } Ctx;
static int c11_epoch;   /* a TPMS_CONTEXT as returned */
#define C11_MAXCTX 256
static Ctx c11_ctx[C11_MAXCTX]; static int c11_nctx;
static uint32_t c11_handles[80]; static int c11_nh;   /* handles the harness believes exist (loaded or saved) */

static uint32_t c11_rcclass(uint32_t rc) { return rc; }

static void c11_create(Buf *b, int type) {
    uint8_t nonce[16]; for (int i = 0; i < 16; i++) nonce[i] = rnd(256);
    cmd_begin(b, ST_NO_SESSIONS, CC_StartAuthSession); b_u32(b, RH_NULL); b_u32(b, RH_NULL); b_2b(b, nonce, 16); b_u16(b, 0);
    b_u8(b, type); b_u16(b, ALG_NULL); b_u16(b, ALG_SHA256);
    Rsp r = run(b);
    uint32_t h = (r.rc == 0 && r.len >= 14) ? g32(r.p + 10) : 0;
    tr("s op=create type=%d rc=%u h=%u ht=%u", type, r.rc, h & 0xFFFFFF, h >> 24);
    if (r.rc == 0 && c11_nh < 80) c11_handles[c11_nh++] = h;
}
static void c11_save(Buf *b, uint32_t h) {
    cmd_begin(b, ST_NO_SESSIONS, CC_ContextSave); b_u32(b, h);
    Rsp r = run(b);
    if (r.rc == 0 && r.len > 10 + 18) {
        uint64_t seq = g64(r.p + 10); uint32_t sh = g32(r.p + 18);
        tr("s op=save h=%u ht=%u rc=0 seq=%llu saved_h=%u epoch=%d", h & 0xFFFFFF, h >> 24, (unsigned long long)seq, sh & 0xFFFFFF, c11_epoch);
        /* the whole TPMS_CONTEXT and the secrets it is protected with: the Lean side recomputes integrity and fingerprint */
        { uint32_t hier = g32(r.p + 22); uint8_t proof[64]; int pl = verif_get_proof(hier, proof);
          tr_begin("s op=ctxblob seq=%llu saved_h=%u hier=%u total=%llu clear=%u", (unsigned long long)seq, sh, hier, (unsigned long long)verif_get_totalResetCount(), verif_get_clearCount());
          trhex("proof", proof, pl > 0 ? pl : 0); trhex("blob", r.p + 28, g16(r.p + 26)); tr_end(); }
        if (c11_nctx < C11_MAXCTX) { Ctx *c = &c11_ctx[c11_nctx++]; c->n = r.len - 10; c->p = malloc(c->n); memcpy(c->p, r.p + 10, c->n); c->h = h; c->seq = seq; c->live = 1; c->epoch = c11_epoch; }
    } else tr("s op=save h=%u ht=%u rc=%u", h & 0xFFFFFF, h >> 24, r.rc);
}
static Rsp c11_load_raw(Buf *b, const uint8_t *ctx, uint32_t n) { cmd_begin(b, ST_NO_SESSIONS, CC_ContextLoad); b_bytes(b, ctx, n); return run(b); }
static void c11_load(Buf *b, Ctx *c) {
    Rsp r = c11_load_raw(b, c->p, c->n);
    uint32_t lh = (r.rc == 0 && r.len >= 14) ? g32(r.p + 10) : 0;
    tr("s op=load h=%u seq=%llu rc=%u loaded_h=%u epoch=%d", c->h & 0xFFFFFF, (unsigned long long)c->seq, r.rc, lh & 0xFFFFFF, c->epoch);
}
static void c11_flush(Buf *b, uint32_t h) {
    cmd_begin(b, ST_NO_SESSIONS, CC_FlushContext); b_u32(b, h);
    Rsp r = run(b);
    tr("s op=flush h=%u rc=%u", h & 0xFFFFFF, r.rc);
}
static void c11_caplist(Buf *b, uint32_t first, const char *key) {
    cmd_begin(b, ST_NO_SESSIONS, CC_GetCapability); b_u32(b, 1); b_u32(b, first); b_u32(b, 100);
    Rsp r = run(b);
    fprintf(g_tr, " %s=", key);
    if (r.rc != 0 || r.len < 19) { fprintf(g_tr, "ERR%u", r.rc); return; }
    uint32_t cnt = g32(r.p + 15);
    if (cnt == 0) fputc('-', g_tr);
    for (uint32_t i = 0; i < cnt && 19 + 4 * i + 4 <= r.len; i++) fprintf(g_tr, "%s%u", i ? "," : "", g32(r.p + 19 + 4 * i) & 0xFFFFFF);
}
static uint32_t c11_prop(Buf *b, uint32_t pt) {
    cmd_begin(b, ST_NO_SESSIONS, CC_GetCapability); b_u32(b, 6); b_u32(b, pt); b_u32(b, 1);
    Rsp r = run(b);
    if (r.rc != 0 || r.len < 27 || g32(r.p + 15) != 1 || g32(r.p + 19) != pt) return 0xFFFFFFFF;
    return g32(r.p + 23);
}
static void c11_caps(Buf *b) {
    tr_begin("s op=caps");
    c11_caplist(b, 0x02000000, "loaded"); c11_caplist(b, 0x03000000, "saved");
    /* TPM_PT_HR_LOADED 0x204? use PT_VAR group: HR_LOADED=PT_VAR+4.. query by value */
    fprintf(g_tr, " hr_loaded=%u hr_loaded_avail=%u hr_active=%u hr_active_avail=%u",
            c11_prop(b, 0x200 + 3), c11_prop(b, 0x200 + 4), c11_prop(b, 0x200 + 5), c11_prop(b, 0x200 + 6));
    tr_end();
}
static uint32_t c11_pick_handle(void) { return c11_nh ? c11_handles[rnd(c11_nh)] : 0x02000000 + rnd(64); }

static void c11_blob_mutations(Buf *b, int n) {
    /* every alteration of a saved context must make ContextLoad fail without effect */
    for (int k = 0; k < n && c11_nctx; k++) {
        Ctx *c = &c11_ctx[rnd(c11_nctx)];
        uint8_t *m = malloc(c->n + 8); memcpy(m, c->p, c->n); uint32_t mn = c->n;
        int kind = rnd(4);
        if (kind == 0) m[rnd(mn)] ^= 1 << rnd(8);
        else if (kind == 1) { mn = rnd(mn); }                                  /* truncation */
        else if (kind == 2) { uint32_t off = 16 + 2 + rnd(mn - 18); m[off] ^= 0xFF; }   /* inside the blob */
        else { m[rnd(8)] ^= 1 << rnd(8); }                                     /* sequence field */
        if (mn == c->n && !memcmp(m, c->p, mn)) { free(m); continue; }
        tr_begin("s op=capsnap"); c11_caplist(b, 0x02000000, "loaded"); c11_caplist(b, 0x03000000, "saved"); tr_end();
        Rsp r = c11_load_raw(b, m, mn);
        tr("s op=mutload kind=%d h=%u rc=%u", kind, c->h & 0xFFFFFF, r.rc);
        tr_begin("s op=capsnap2"); c11_caplist(b, 0x02000000, "loaded"); c11_caplist(b, 0x03000000, "saved"); tr_end();
        free(m);
    }
}

/* ages of saved contexts relative to the counter; returns index of the oldest (or -1) */
static int c11_oldest_saved(unsigned *maxage_out) {
    unsigned mask = verif_get_slotmask(); uint64_t c = verif_get_contextCounter(); unsigned maxage = 0; int idx = -1;
    for (unsigned k = 0; k < 64; k++) { unsigned e = verif_get_contextArray(k); if (e > 3) { unsigned age = (unsigned)((c - e) & mask); if (age == 0) age = mask + 1; if (age > maxage) { maxage = age; idx = (int)k; } } }
    if (maxage_out) *maxage_out = maxage;
    return idx;
}
static void c11_poke_forward(int slack) {
    unsigned mask = verif_get_slotmask(); uint64_t c = verif_get_contextCounter(); unsigned maxage = 0;
    if (c11_oldest_saved(&maxage) < 0 || maxage + 8 >= mask) return;
    uint64_t nc = c + (mask + 1 - maxage) - 1 - slack;
    if (nc > c && (nc & mask) > 3) { verif_set_contextCounter(nc); tr("s op=poke counter=%llu mask=%u", (unsigned long long)nc, mask); }
}
/* drill: several saved sessions, the oldest is flushed (or loaded), the counter is advanced to just before the
 * NEW oldest id would be reused, then saves/creates continue until the TPM has to answer TPM_RC_CONTEXT_GAP */
static void c11_gap_drill(Buf *b) {
    for (int k = 0; k < 3; k++) { c11_create(b, 0); if (c11_nh) c11_save(b, c11_handles[c11_nh - 1]); }
    int o = c11_oldest_saved(NULL);
    if (o >= 0 && chance(80)) { if (chance(70)) c11_flush(b, 0x02000000 + o); else { for (int i = c11_nctx - 1; i >= 0; i--) if ((c11_ctx[i].h & 0xFFFFFF) == (uint32_t)o) { c11_load(b, &c11_ctx[i]); break; } } }
    c11_poke_forward(rnd(3));
    for (int k = 0; k < 6; k++) {
        if (chance(50)) { c11_create(b, 0); if (c11_nh) c11_save(b, c11_handles[c11_nh - 1]); }
        else if (c11_nh) c11_save(b, c11_handles[rnd(c11_nh)]);
        if (chance(30) && c11_nctx) c11_load(b, &c11_ctx[c11_nctx - 1]);
    }
    c11_caps(b);
}

#include "scen_c11_obj.h"
static void scen_c11(int histories, int maxops) {
    g_tpm2_statics = 1;   /* a resume or power cycle starts from the load-time image of the library's globals, as in a new process */
    Buf b = {0};
    for (int h = 0; h < histories; h++) {
        tr("hist %d", h);
        for (int i = 0; i < c11_nctx; i++) free(c11_ctx[i].p);
        c11_nctx = 0; c11_nh = 0; c11o_reset();
        tpm2_fresh(h % 3 == 0 ? NULL : (h % 3 == 1 ? PROFILE_DEFAULT_V1 : PROFILE_CUSTOM));
        tpm2_startup(&b, 0);
        c11_epoch++;
        tr("s op=startup reset=1 epoch=%d", c11_epoch);
        /* jump near a wrap of the 16-bit (or, with the legacy mask, 8-bit) slot counter while no context is saved */
        if (chance(75)) {
            unsigned mask = chance(35) ? 0xff : 0xffff;
            uint64_t base = (uint64_t)(mask + 1) * (1 + rnd(5));
            uint64_t c = base - 1 - rnd(chance(50) ? 8 : 70);
            if ((c & mask) <= 3) c += 4;
            verif_set_slotmask(mask); verif_set_contextCounter(c);
            tr("s op=poke counter=%llu mask=%u", (unsigned long long)c, mask);
        }
        int n = 10 + rnd(maxops);
        for (int i = 0; i < n; i++) {
            switch (rnd(28)) {
            case 0: case 1: case 2: case 3: c11_create(&b, chance(70) ? 0 : 1); break;
            case 4: case 5: case 6: case 7: case 8: { /* save a loaded one if any */
                uint32_t hh = c11_pick_handle(); c11_save(&b, hh); break; }
            case 9: case 10: case 11: case 12: if (c11_nctx) c11_load(&b, &c11_ctx[chance(70) ? c11_nctx - 1 - rnd(c11_nctx > 4 ? 4 : c11_nctx) : rnd(c11_nctx)]); break;
            case 13: case 14: c11_flush(&b, c11_pick_handle()); break;
            case 15: c11_caps(&b); break;
            case 16: if (chance(40)) { /* suspend / resume */
                TPM_RESULT r = tpm2_suspend_resume(NULL, NULL); tr("s op=resume ret=%u", r); } break;
            case 17: if (chance(35)) { /* orderly Shutdown(STATE), restart, Startup(STATE or CLEAR) */
                Rsp r = tpm2_shutdown(&b, 1);
                if (r.rc == 0) {
                    tpm2_powercycle();
                    int su = chance(60) ? 1 : 0;
                    Rsp r2 = tpm2_startup(&b, su);
                    tr("s op=startup reset=0 su=%d rc=%u", su, r2.rc);
                } } break;
            case 18: if (chance(25)) { /* reset: power cut (no shutdown) or Shutdown(CLEAR) */
                if (chance(50)) tpm2_shutdown(&b, 0);
                tpm2_powercycle();
                Rsp r2 = tpm2_startup(&b, 0);
                if (r2.rc == 0) c11_epoch++;
                tr("s op=startup reset=1 rc=%u epoch=%d", r2.rc, c11_epoch);
                c11_nh = 0; } break;
            case 19: { /* jump the counter forward to just before the point where the oldest saved id would be reused */
                unsigned mask = verif_get_slotmask(); uint64_t c = verif_get_contextCounter(); unsigned maxage = 0; int any = 0;
                for (unsigned k = 0; k < 64; k++) { unsigned e = verif_get_contextArray(k); if (e > 3) { unsigned age = (unsigned)((c - e) & mask); if (age == 0) age = mask + 1; if (age > maxage) maxage = age; any = 1; } }
                if (any && maxage + 8 < mask) {
                    uint64_t nc = c + (mask + 1 - maxage) - 1 - rnd(5);
                    if (nc > c && (nc & mask) > 3) { verif_set_contextCounter(nc); tr("s op=poke counter=%llu mask=%u", (unsigned long long)nc, mask); }
                }
                break; }
            case 20: if (chance(30)) c11_gap_drill(&b); break;
            case 22: case 23: if (chance(25)) c11o_save_seq(&b); else c11o_save_new(&b); break;
            case 24: case 25: case 26: c11o_load(&b); break;
            case 27: c11o_event(&b); break;
            default: c11_blob_mutations(&b, 1); break;
            }
        }
        c11_caps(&b);
        c11_blob_mutations(&b, 6);
        if (h % 2 == 0) c11_gap_drill(&b);
    }
    b_free(&b);
}
