/* tpmdrv core: PRNG, virtual clock, deterministic entropy, storage callbacks with fault
 * schedules, trace writer, byte buffers, TPM 2 command helpers.  One translation unit. */
#ifndef VERIF_CORE_H
#define VERIF_CORE_H
#define _GNU_SOURCE
#include <stdint.h>
#include <stdio.h>
#include <stdlib.h>
#include <string.h>
#include <stdarg.h>
#include <time.h>
#include <setjmp.h>
#include <unistd.h>
#include <signal.h>
#include <libtpms/tpm_library.h>
#include <libtpms/tpm_error.h>
#include <libtpms/tpm_tis.h>
#include <libtpms/tpm_nvfilename.h>
#include <openssl/evp.h>
#include <openssl/hmac.h>
#include <openssl/sha.h>

/* ---------- PRNG (splitmix64): one state drives every random choice ---------- */
static uint64_t g_rng;
static inline uint64_t rnd64(void) {
    uint64_t z = (g_rng += 0x9E3779B97F4A7C15ULL);
    z = (z ^ (z >> 30)) * 0xBF58476D1CE4E5B9ULL;
    z = (z ^ (z >> 27)) * 0x94D049BB133111EBULL;
    return z ^ (z >> 31);
}
static inline uint32_t rnd(uint32_t n) { return n ? (uint32_t)(rnd64() % n) : 0; }
static inline int chance(uint32_t pct) { return rnd(100) < pct; }

/* ---------- entropy given to the TPM (separate stream so histories replay) ---------- */
static uint64_t g_ent;
static inline uint64_t ent64(void) {
    uint64_t z = (g_ent += 0x9E3779B97F4A7C15ULL);
    z = (z ^ (z >> 30)) * 0xBF58476D1CE4E5B9ULL;
    z = (z ^ (z >> 27)) * 0x94D049BB133111EBULL;
    return z ^ (z >> 31);
}
int verif_RAND_bytes(unsigned char *buf, int num) {
    for (int i = 0; i < num; i++) buf[i] = (unsigned char)(ent64() >> 24);
    return 1;
}
int verif_rand(void) { return (int)(ent64() >> 33) & 0x7fffffff; }

/* ---------- virtual clocks ---------- */
static uint64_t g_mono_ns = 1000000000ULL;       /* CLOCK_MONOTONIC */
static uint64_t g_real_ns = 1700000000000000000ULL; /* CLOCK_REALTIME */
int verif_clock_gettime(clockid_t clk, struct timespec *ts) {
    uint64_t v = (clk == CLOCK_REALTIME) ? g_real_ns : g_mono_ns;
    ts->tv_sec = v / 1000000000ULL;
    ts->tv_nsec = v % 1000000000ULL;
    return 0;
}
static inline void clock_advance_ms(uint64_t ms) { g_mono_ns += ms * 1000000ULL; g_real_ns += ms * 1000000ULL; }

/* ---------- trace ---------- */
static FILE *g_tr;
static void tr(const char *fmt, ...) {
    va_list ap; va_start(ap, fmt); vfprintf(g_tr, fmt, ap); va_end(ap); fputc('\n', g_tr);
}
static void trhex(const char *key, const uint8_t *p, size_t n) {
    fprintf(g_tr, " %s=", key);
    if (!n) fputc('-', g_tr);
    for (size_t i = 0; i < n; i++) fprintf(g_tr, "%02x", p[i]);
}
static void tr_begin(const char *fmt, ...) { va_list ap; va_start(ap, fmt); vfprintf(g_tr, fmt, ap); va_end(ap); }
static void tr_end(void) { fputc('\n', g_tr); }

static void die(const char *fmt, ...) {
    va_list ap; va_start(ap, fmt); fprintf(stderr, "HARNESS-ERROR: "); vfprintf(stderr, fmt, ap); va_end(ap);
    fputc('\n', stderr); if (g_tr) fflush(g_tr); _exit(3);
}

/* ---------- cancel polls / longjmp guard ---------- */
extern int _plat__IsCanceled(void);
static int g_in_process;            /* set while inside TPMLIB_Process */
static long g_polls;                /* number of _plat__IsCanceled polls seen in this Process call */
static long g_cancel_at = -1;       /* poll index at which the cancel request lands (-1: never) */
int verif_IsCanceled(void) {
    if (g_cancel_at >= 0 && g_polls == g_cancel_at) TPMLIB_CancelCommand();
    g_polls++;
    return _plat__IsCanceled();
}
static int g_stalejmp;
static int g_allow_jmp_outside;     /* scenarios that expect it record instead of exiting */
extern void __sanitizer_print_stack_trace(void);
void verif_longjmp(jmp_buf env, int val) {
    if (!g_in_process) {
        g_stalejmp++;
        if (g_tr) { tr("san stalejmp"); fflush(g_tr); }
        fprintf(stderr, "VERIF-STALEJMP: longjmp requested outside TPMLIB_Process\n");
        __sanitizer_print_stack_trace();
        _exit(77);
    }
    longjmp(env, val);
}

/* ---------- storage callbacks ---------- */
typedef struct { uint8_t *p; uint32_t n; int present; } Blob;
enum { ST_PERM = 0, ST_VOL = 1, ST_SAVE = 2 };
static Blob g_store[3];
static long g_store_calls, g_load_calls, g_nvinit_calls, g_ioinit_calls;
static long g_store_fail_at = -1;   /* fail the k-th store call (0-based), -1 never */
static int  g_store_fail_sticky;    /* once failed keep failing */
static long g_load_fail_at = -1;    /* k-th load call misbehaves */
static int  g_load_fail_mode;       /* 1 TPM_FAIL, 2 garbage, 3 truncated */
static long g_nvinit_fail_at = -1, g_ioinit_fail_at = -1;
static long g_fault_fired;
static int g_locality;
static int g_pp = 0;
static long g_store_in_cmd;         /* number of store calls since last reset by scenario */
static long g_store_perm_in_cmd;    /* ... of the permanent state only */
static int g_trace_cb;              /* trace callback events */

static int name_idx(const char *name) {
    if (!strcmp(name, TPM_PERMANENT_ALL_NAME)) return ST_PERM;
    if (!strcmp(name, TPM_VOLATILESTATE_NAME)) return ST_VOL;
    if (!strcmp(name, TPM_SAVESTATE_NAME)) return ST_SAVE;
    die("unknown blob name %s", name); return 0;
}
static void blob_set(Blob *b, const uint8_t *p, uint32_t n) {
    free(b->p); b->p = malloc(n ? n : 1); memcpy(b->p, p, n); b->n = n; b->present = 1;
}
static void blob_clear(Blob *b) { free(b->p); b->p = NULL; b->n = 0; b->present = 0; }

static TPM_RESULT cb_nvinit(void) {
    long k = g_nvinit_calls++;
    if (k == g_nvinit_fail_at) { g_fault_fired++; return TPM_FAIL; }
    return TPM_SUCCESS;
}
static TPM_RESULT cb_ioinit(void) {
    long k = g_ioinit_calls++;
    if (k == g_ioinit_fail_at) { g_fault_fired++; return TPM_FAIL; }
    return TPM_SUCCESS;
}
static TPM_RESULT cb_load(unsigned char **data, uint32_t *length, uint32_t num, const char *name) {
    long k = g_load_calls++;
    int i = name_idx(name);
    *data = NULL; *length = 0;
    if (k == g_load_fail_at && g_load_fail_mode == 1) { g_fault_fired++; return TPM_FAIL; }
    if (!g_store[i].present) return TPM_RETRY;
    uint32_t n = g_store[i].n;
    if (k == g_load_fail_at && g_load_fail_mode == 3) { g_fault_fired++; n = n / 2; }
    *data = malloc(n ? n : 1);
    memcpy(*data, g_store[i].p, n);
    if (k == g_load_fail_at && g_load_fail_mode == 2) { g_fault_fired++; for (uint32_t j = 0; j < n; j++) (*data)[j] = (uint8_t)(j * 37 + 11); }
    *length = n;
    return TPM_SUCCESS;
}
static TPM_RESULT cb_store(const unsigned char *data, uint32_t length, uint32_t num, const char *name) {
    long k = g_store_calls++;
    int i = name_idx(name);
    g_store_in_cmd++;
    if (i == ST_PERM) g_store_perm_in_cmd++;
    if (k == g_store_fail_at || (g_store_fail_sticky && g_store_fail_at >= 0 && k > g_store_fail_at)) {
        g_fault_fired++; return TPM_FAIL;
    }
    blob_set(&g_store[i], data, length);
    return TPM_SUCCESS;
}
static TPM_RESULT cb_delete(uint32_t num, const char *name, TPM_BOOL mustExist) {
    int i = name_idx(name);
    if (!g_store[i].present && mustExist) return TPM_FAIL;
    blob_clear(&g_store[i]);
    return TPM_SUCCESS;
}
static TPM_RESULT cb_locality(TPM_MODIFIER_INDICATOR *loc, uint32_t num) { *loc = g_locality; return TPM_SUCCESS; }
static TPM_RESULT cb_pp(TPM_BOOL *pp, uint32_t num) { *pp = g_pp; return TPM_SUCCESS; }

static struct libtpms_callbacks g_cbs = {
    .sizeOfStruct = sizeof(struct libtpms_callbacks),
    .tpm_nvram_init = cb_nvinit, .tpm_nvram_loaddata = cb_load, .tpm_nvram_storedata = cb_store,
    .tpm_nvram_deletename = cb_delete, .tpm_io_init = cb_ioinit, .tpm_io_getlocality = cb_locality,
    .tpm_io_getphysicalpresence = cb_pp,
};
static void faults_clear(void) {
    g_store_fail_at = g_load_fail_at = g_nvinit_fail_at = g_ioinit_fail_at = -1; g_store_fail_sticky = 0; g_load_fail_mode = 0;
}
static void storage_reset(void) {
    for (int i = 0; i < 3; i++) blob_clear(&g_store[i]);
    g_store_calls = g_load_calls = g_nvinit_calls = g_ioinit_calls = 0;
    faults_clear();
}

/* ---------- byte buffer ---------- */
typedef struct { uint8_t *p; size_t n, cap; } Buf;
static void b_need(Buf *b, size_t k) { if (b->n + k > b->cap) { b->cap = (b->n + k) * 2 + 64; b->p = realloc(b->p, b->cap); } }
static void b_reset(Buf *b) { b->n = 0; }
static void b_free(Buf *b) { free(b->p); b->p = NULL; b->n = b->cap = 0; }
static void b_u8(Buf *b, uint8_t v) { b_need(b, 1); b->p[b->n++] = v; }
static void b_u16(Buf *b, uint16_t v) { b_u8(b, v >> 8); b_u8(b, v); }
static void b_u32(Buf *b, uint32_t v) { b_u16(b, v >> 16); b_u16(b, v); }
static void b_u64(Buf *b, uint64_t v) { b_u32(b, v >> 32); b_u32(b, (uint32_t)v); }
static void b_bytes(Buf *b, const void *p, size_t n) { b_need(b, n); if (n) memcpy(b->p + b->n, p, n); b->n += n; }
static void b_2b(Buf *b, const void *p, size_t n) { b_u16(b, (uint16_t)n); b_bytes(b, p, n); }
static void b_put32(Buf *b, size_t off, uint32_t v) { b->p[off] = v >> 24; b->p[off+1] = v >> 16; b->p[off+2] = v >> 8; b->p[off+3] = v; }
static void b_put16(Buf *b, size_t off, uint16_t v) { b->p[off] = v >> 8; b->p[off+1] = v; }

static inline uint16_t g16(const uint8_t *p) { return (p[0] << 8) | p[1]; }
static inline uint32_t g32(const uint8_t *p) { return ((uint32_t)p[0] << 24) | (p[1] << 16) | (p[2] << 8) | p[3]; }
static inline uint64_t g64(const uint8_t *p) { return ((uint64_t)g32(p) << 32) | g32(p + 4); }

/* reader with bounds checks: parse errors in the *harness's* reading of a response are recorded, not fatal */
typedef struct { const uint8_t *p; size_t n, off; int err; } Rd;
static uint8_t r_u8(Rd *r) { if (r->off + 1 > r->n) { r->err = 1; return 0; } return r->p[r->off++]; }
static uint16_t r_u16(Rd *r) { if (r->off + 2 > r->n) { r->err = 1; return 0; } uint16_t v = g16(r->p + r->off); r->off += 2; return v; }
static uint32_t r_u32(Rd *r) { if (r->off + 4 > r->n) { r->err = 1; return 0; } uint32_t v = g32(r->p + r->off); r->off += 4; return v; }
static uint64_t r_u64(Rd *r) { if (r->off + 8 > r->n) { r->err = 1; return 0; } uint64_t v = g64(r->p + r->off); r->off += 8; return v; }
static const uint8_t *r_bytes(Rd *r, size_t k) { if (r->off + k > r->n) { r->err = 1; return r->p; } const uint8_t *q = r->p + r->off; r->off += k; return q; }
static const uint8_t *r_2b(Rd *r, uint16_t *len) { *len = r_u16(r); return r_bytes(r, *len); }

/* ---------- TPM 2 constants ---------- */
#define ST_NO_SESSIONS 0x8001
#define ST_SESSIONS    0x8002
#define RS_PW          0x40000009u
#define RH_OWNER       0x40000001u
#define RH_NULL        0x40000007u
#define RH_LOCKOUT     0x4000000Au
#define RH_ENDORSEMENT 0x4000000Bu
#define RH_PLATFORM    0x4000000Cu
#define ALG_RSA 0x0001
#define ALG_SHA1 0x0004
#define ALG_HMAC 0x0005
#define ALG_AES 0x0006
#define ALG_KEYEDHASH 0x0008
#define ALG_XOR 0x000A
#define ALG_SHA256 0x000B
#define ALG_SHA384 0x000C
#define ALG_SHA512 0x000D
#define ALG_NULL 0x0010
#define ALG_RSASSA 0x0014
#define ALG_RSAPSS 0x0016
#define ALG_OAEP 0x0017
#define ALG_ECDSA 0x0018
#define ALG_ECC 0x0023
#define ALG_SYMCIPHER 0x0025
#define ALG_CTR 0x0040
#define ALG_OFB 0x0041
#define ALG_CBC 0x0042
#define ALG_CFB 0x0043
#define ALG_ECB 0x0044

#define CC_NV_UndefineSpaceSpecial 0x11F
#define CC_EvictControl 0x120
#define CC_HierarchyControl 0x121
#define CC_NV_UndefineSpace 0x122
#define CC_ChangeEPS 0x124
#define CC_ChangePPS 0x125
#define CC_Clear 0x126
#define CC_ClearControl 0x127
#define CC_ClockSet 0x128
#define CC_HierarchyChangeAuth 0x129
#define CC_NV_DefineSpace 0x12A
#define CC_PCR_Allocate 0x12B
#define CC_PCR_SetAuthPolicy 0x12C
#define CC_SetPrimaryPolicy 0x12E
#define CC_ClockRateAdjust 0x130
#define CC_CreatePrimary 0x131
#define CC_NV_GlobalWriteLock 0x132
#define CC_NV_Increment 0x134
#define CC_NV_SetBits 0x135
#define CC_NV_Extend 0x136
#define CC_NV_Write 0x137
#define CC_NV_WriteLock 0x138
#define CC_DictionaryAttackLockReset 0x139
#define CC_DictionaryAttackParameters 0x13A
#define CC_NV_ChangeAuth 0x13B
#define CC_PCR_Event 0x13C
#define CC_PCR_Reset 0x13D
#define CC_SequenceComplete 0x13E
#define CC_SelfTest 0x143
#define CC_Startup 0x144
#define CC_Shutdown 0x145
#define CC_StirRandom 0x146
#define CC_NV_Read 0x14E
#define CC_NV_ReadLock 0x14F
#define CC_ObjectChangeAuth 0x150
#define CC_PolicySecret 0x151
#define CC_Create 0x153
#define CC_ECDH_ZGen 0x154
#define CC_HMAC 0x155
#define CC_Load 0x157
#define CC_Quote 0x158
#define CC_RSA_Decrypt 0x159
#define CC_HMAC_Start 0x15B
#define CC_SequenceUpdate 0x15C
#define CC_Sign 0x15D
#define CC_Unseal 0x15E
#define CC_ContextLoad 0x161
#define CC_ContextSave 0x162
#define CC_ECDH_KeyGen 0x163
#define CC_EncryptDecrypt 0x164
#define CC_FlushContext 0x165
#define CC_LoadExternal 0x167
#define CC_NV_ReadPublic 0x169
#define CC_PolicyAuthValue 0x16B
#define CC_PolicyCommandCode 0x16C
#define CC_PolicyOR 0x171
#define CC_ReadPublic 0x173
#define CC_RSA_Encrypt 0x174
#define CC_StartAuthSession 0x176
#define CC_VerifySignature 0x177
#define CC_GetCapability 0x17A
#define CC_GetRandom 0x17B
#define CC_GetTestResult 0x17C
#define CC_Hash 0x17D
#define CC_PCR_Read 0x17E
#define CC_PolicyPCR 0x17F
#define CC_PolicyRestart 0x180
#define CC_ReadClock 0x181
#define CC_PCR_Extend 0x182
#define CC_PCR_SetAuthValue 0x183
#define CC_NV_Certify 0x184
#define CC_EventSequenceComplete 0x185
#define CC_HashSequenceStart 0x186
#define CC_PolicyGetDigest 0x189
#define CC_TestParms 0x18A
#define CC_PolicyPassword 0x18C
#define CC_EncryptDecrypt2 0x193

#define RC_SUCCESS 0
#define RC_FAILURE 0x101
#define RC_INITIALIZE 0x100
#define RC_AUTH_FAIL 0x98E
#define RC_BAD_AUTH 0x9A2
#define RC_LOCKOUT 0x921
#define RC_RETRY 0x922
#define RC_NV_UNAVAILABLE 0x923
#define RC_CANCELED 0x909
#define RC_COMMAND_CODE 0x143

/* ---------- running a command ---------- */
typedef struct {
    TPM_RESULT ret; uint32_t len; uint32_t bufsize; uint16_t tag; uint32_t size; uint32_t rc; const uint8_t *p;
} Rsp;
static unsigned char *g_respbuf; static uint32_t g_respbufsize;
static long g_cmd_id;
static int g_trace_cmds = 1;
static long g_n_cmds, g_n_ok;
static EVP_MD_CTX *g_resp_md;       /* when set, every response is fed into this digest (twin-run oracle) */
static long g_resp_count;
static FILE *g_resp_dump;
#define RESP_LOG_MAX 400
static uint32_t g_resp_log[RESP_LOG_MAX][3];   /* per response in a hashed run: command code, rc, crc of the bytes */

extern int g_inFailureMode;
static int g_trace_x;   /* C01: every command sent by a borrowed scenario is traced for the framing checker */
static Rsp run_raw(const uint8_t *cmd, uint32_t n) {
    Rsp r; memset(&r, 0, sizeof r);
    uint32_t len = 0;
    uint8_t *copy = malloc(n ? n : 1); memcpy(copy, cmd, n);   /* exact-size heap copy: ASan sees over-reads */
    g_polls = 0; g_in_process = 1; g_store_in_cmd = 0; g_store_perm_in_cmd = 0;
    r.ret = TPMLIB_Process(&g_respbuf, &len, &g_respbufsize, copy, n);
    g_in_process = 0;
    free(copy);
    r.len = len; r.bufsize = g_respbufsize; r.p = g_respbuf;
    if (len >= 10) { r.tag = g16(g_respbuf); r.size = g32(g_respbuf + 2); r.rc = g32(g_respbuf + 6); }
    else r.rc = 0xFFFFFFFF;
    g_n_cmds++; if (r.rc == 0) g_n_ok++;
    g_cmd_id++;
    if (g_trace_x && !(n >= 10 && g32(cmd + 6) == 0x144 /* the Startup that begins a borrowed history */)) { tr_begin("x loc=%d started=1 ret=%u bufsize=%u infail=%d", g_locality, r.ret, r.bufsize, g_inFailureMode); trhex("req", cmd, n); trhex("rsp", r.p, r.len); tr_end(); }
    if (g_resp_md) {
        uint32_t ccx = n >= 10 ? g32(cmd + 6) : 0;
        /* responses that legitimately contain host-side randomness (ECDSA nonces from OpenSSL) or raw structure padding
           (ContextSave copies the SESSION structure bytewise): only rc and length are compared */
        int opaque = r.rc == 0 && (ccx == CC_Sign || ccx == CC_ContextSave || ccx == CC_Quote || ccx == CC_NV_Certify || ccx == CC_ECDH_KeyGen);
        EVP_DigestUpdate(g_resp_md, &r.ret, sizeof r.ret); EVP_DigestUpdate(g_resp_md, &len, 4); EVP_DigestUpdate(g_resp_md, g_respbuf, opaque ? 10 : len);
        if (g_resp_count < RESP_LOG_MAX) { uint32_t c = 2166136261u; for (uint32_t i = 0; i < (opaque ? 10 : len); i++) c = (c ^ g_respbuf[i]) * 16777619u;
            g_resp_log[g_resp_count][0] = n >= 10 ? g32(cmd + 6) : 0; g_resp_log[g_resp_count][1] = r.rc; g_resp_log[g_resp_count][2] = c; }
        if (g_resp_dump) { fprintf(g_resp_dump, "%ld cc=%x rc=%x ", g_resp_count, n >= 10 ? g32(cmd + 6) : 0, r.rc); for (uint32_t i = 0; i < len; i++) fprintf(g_resp_dump, "%02x", g_respbuf[i]); fputc('\n', g_resp_dump); }
        g_resp_count++;
    }
    return r;
}
static Rsp run(Buf *b) { b_put32(b, 2, (uint32_t)b->n); return run_raw(b->p, (uint32_t)b->n); }

static void cmd_begin(Buf *b, uint16_t tag, uint32_t cc) { b_reset(b); b_u16(b, tag); b_u32(b, 0); b_u32(b, cc); }
/* one password session in the authorization area */
static void auth_pw(Buf *b, const void *pw, size_t n) {
    b_u32(b, 9 + (uint32_t)n); b_u32(b, RS_PW); b_u16(b, 0); b_u8(b, 0); b_2b(b, pw, n);
}
/* response parameter area start for a success response with sessions: after handles (nh) comes parameterSize */
static Rd rsp_params(const Rsp *r, int nhandles) {
    Rd rd = { r->p, r->len, 10 + 4 * (size_t)nhandles, 0 };
    if (r->tag == ST_SESSIONS) { uint32_t ps = r_u32(&rd); if (rd.off + ps <= rd.n) rd.n = rd.off + ps; else rd.err = 1; }
    return rd;
}

/* ---------- API wrappers ---------- */
static void tpm2_fresh(const char *profile) {
    /* brand new library instance with empty storage */
    TPMLIB_Terminate();
    storage_reset();
    if (TPMLIB_ChooseTPMVersion(TPMLIB_TPM_VERSION_2) != TPM_SUCCESS) die("choose version 2");
    if (TPMLIB_RegisterCallbacks(&g_cbs) != TPM_SUCCESS) die("register callbacks");
    if (profile && TPMLIB_SetProfile(profile) != TPM_SUCCESS) die("setprofile %s", profile);
    TPM_RESULT r = TPMLIB_MainInit();
    if (r != TPM_SUCCESS) die("maininit %u", r);
}
static Rsp tpm2_startup(Buf *b, uint16_t su) { cmd_begin(b, ST_NO_SESSIONS, CC_Startup); b_u16(b, su); return run(b); }
static Rsp tpm2_shutdown(Buf *b, uint16_t su) { cmd_begin(b, ST_NO_SESSIONS, CC_Shutdown); b_u16(b, su); return run(b); }

static int g_tpm2_statics = 1;   /* a power cycle or resume starts from the load-time image of the library's globals, as a new process does (scenarios about one process's API calls switch it off) */
/* power cut: terminate, MainInit again from storage (store callback content) */
extern void verif_new_process_statics(void);
static TPM_RESULT tpm2_powercycle(void) {
    TPMLIB_Terminate();
    if (g_tpm2_statics) verif_new_process_statics();
    blob_clear(&g_store[ST_VOL]);
    return TPMLIB_MainInit();
}
/* suspend/resume: take both blobs, terminate, set state, init */
static TPM_RESULT tpm2_suspend_resume(Blob *perm_out, Blob *vol_out) {
    unsigned char *pb = NULL, *vb = NULL; uint32_t pl = 0, vl = 0;
    TPM_RESULT r;
    if ((r = TPMLIB_GetState(TPMLIB_STATE_PERMANENT, &pb, &pl)) != TPM_SUCCESS) return r | 0x10000;
    if ((r = TPMLIB_GetState(TPMLIB_STATE_VOLATILE, &vb, &vl)) != TPM_SUCCESS) { free(pb); return r | 0x20000; }
    TPMLIB_Terminate();
    if (g_tpm2_statics) verif_new_process_statics();
    r = TPMLIB_SetState(TPMLIB_STATE_PERMANENT, pb, pl);
    if (r == TPM_SUCCESS) r = TPMLIB_SetState(TPMLIB_STATE_VOLATILE, vb, vl); else r |= 0x30000;
    if (perm_out) blob_set(perm_out, pb, pl);
    if (vol_out) blob_set(vol_out, vb, vl);
    free(pb); free(vb);
    if (r != TPM_SUCCESS) return r;
    return TPMLIB_MainInit();
}

/* every TPMLIB_Terminate() of a scenario ends "the process": what follows starts from the load-time image of the globals */
static void verif_terminate(void) { TPMLIB_Terminate(); if (g_tpm2_statics) verif_new_process_statics(); }
#define TPMLIB_Terminate() verif_terminate()

static const char *PROFILE_NULL = "{\"Name\":\"null\"}";
static const char *PROFILE_DEFAULT_V1 = "{\"Name\":\"default-v1\"}";
static const char *PROFILE_CUSTOM = "{\"Name\":\"custom:verif\",\"Algorithms\":\"rsa,rsa-min-size=2048,tdes,tdes-min-size=192,hmac,aes,aes-min-size=128,mgf1,keyedhash,xor,sha256,sha384,sha512,null,rsassa,rsaes,rsapss,oaep,ecdsa,ecdh,ecdaa,ecschnorr,ecc,ecc-min-size=256,ecc-nist,ecc-bn,ecc-nist-p256,ecc-nist-p384,symcipher,cmac,ctr,ofb,cbc,cfb,ecb,kdf1-sp800-56a,kdf2,kdf1-sp800-108,sha1,camellia,camellia-min-size=128\"}";

#endif
