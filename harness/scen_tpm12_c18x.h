/* C18 extensions (included by scen_tpm12.h after the C18 basics): an owner in some histories, owner-authorized calls with
 * CORRECT HMACs (so that the ordinal bodies run past their authorization check), NV ordinals with every special index under
 * every tag with complete authorization trailers, and commands wrapped in TPM_ExecuteTransport (well-formed and malformed).
 * Everything still goes through c18_run / c18_run_raw: one `cmd` line per TPMLIB_Process call, judged by Check.C18. */
#ifndef VERIF_SCEN_TPM12_C18X_H
#define VERIF_SCEN_TPM12_C18X_H

static int c18x_owner, c18x_nvlocked;
static T12cSess c18x_own, c18x_zero, c18x_trans;      /* OIAP under ownerAuth, OIAP under the all-zero area authValue, transport */
static uint32_t c18x_key, c18x_counter;
static uint8_t *c18x_keyblob; static uint32_t c18x_keybloblen;
static Buf c18x_ib;                                    /* the wrapped (inner) command */

static Rsp c18x_run(Buf *b, const char *label) {
    (void)label;
    Rsp r = c18_run(b);
    uint32_t ord = b->n >= 10 ? g32(b->p + 6) : 0;
    if ((ord == T12_ORD_OIAP || ord == T12_ORD_OSAP) && r.rc == 0) g12_learn_handle(&r);
    return r;
}
static void c18x_reset(void) {
    c18x_owner = c18x_nvlocked = 0; c18x_key = c18x_counter = 0;
    memset(&c18x_own, 0, sizeof c18x_own); memset(&c18x_zero, 0, sizeof c18x_zero); memset(&c18x_trans, 0, sizeof c18x_trans);
    free(c18x_keyblob); c18x_keyblob = NULL; c18x_keybloblen = 0;
    memset(&g12c, 0, sizeof g12c);
    t12c_run = c18x_run;
}
/* sessions die with every failed command and every power cycle: (re)open on demand */
static T12cSess *c18x_session(Buf *b, int zero_secret) {
    T12cSess *s = zero_secret ? &c18x_zero : &c18x_own;
    if (!s->live) {
        Buf t = {0};
        uint32_t rc = t12c_oiap(&t, s);
        if (rc != 0 && rc != 0xFFFFFFFFu) {                      /* no free session slot: drop the handles the stream has learnt, once */
            for (int i = 0; i < g12_nsess; i++) t12c_terminate_handle(&t, g12_sess[i]);
            g12_nsess = 0; rc = t12c_oiap(&t, s);
        }
        if (rc == 0) { if (zero_secret) memset(s->secret, 0, 20); else memcpy(s->secret, g12c.ownerAuth, 20); }
        b_free(&t);
    }
    (void)b;
    return s->live ? s : NULL;
}
static void c18x_install_owner(Buf *b, int with_key) {
    static const uint8_t own[20] = {0x11, 0x22, 0x33, 0x44, 0x55, 0x66, 0x77, 0x88, 0x99, 0xaa, 1, 2, 3, 4, 5, 6, 7, 8, 9, 10}, srk[20] = {0};
    static const uint8_t cauth[20] = {0xC0, 0xC1, 0xC2, 0xC3, 0xC4, 0xC5, 0xC6, 0xC7, 0xC8, 0xC9, 10, 11, 12, 13, 14, 15, 16, 17, 18, 19};
    if (t12c_create_ek(b) != 0) return;
    if (t12c_take_ownership(b, own, srk) != 0) return;
    c18x_owner = 1;
    uint32_t v = 0; t12c_counter_create(b, cauth, (const uint8_t *)"ctr1", &c18x_counter, &v, 0, NULL);
    /* owner- and area-authorized NV areas next to the ones the prefix defines */
    t12c_nv_define_owner(b, 0x00011203u, 0x20002u, 24, cauth, 0, NULL);               /* OWNERWRITE | OWNERREAD */
    t12c_nv_define_owner(b, 0x00011205u, 0x40004u, 24, srk, 0, NULL);                  /* AUTHWRITE | AUTHREAD, authValue zeros */
    if (with_key) {                                                                     /* one more RSA key generation */
        if (t12c_create_wrap_key(b, T12C_KEY_SIGNING, cauth, &c18x_keyblob, &c18x_keybloblen, 0, NULL) == 0)
            t12c_load_key2(b, NULL, c18x_keyblob, c18x_keybloblen, &c18x_key, 0, NULL);
    }
}
/* handles of live objects for the random bodies */
static uint32_t c18x_object_handle(void) {
    switch (rnd(5)) {
    case 0: if (c18x_key) return c18x_key; /* fall through */
    case 1: if (c18x_trans.live) return c18x_trans.handle; /* fall through */
    case 2: if (c18x_counter || c18x_owner) return c18x_counter; /* fall through */
    case 3: return 0x40000000u;                                                        /* the SRK */
    default: return g12_nsess ? g12_sess[rnd(g12_nsess)] : 0x40000001u;
    }
}
/* one authorization trailer for the command in b (params end at `pend`): a correct HMAC under the owner secret / the all-zero
 * secret when such a session can be opened, else a random trailer aimed at a live handle */
static void c18x_trailer(Buf *b, uint32_t ord, size_t pend, int kind) {
    T12cSess *s = (kind == 1 && c18x_owner) ? c18x_session(b, 0) : kind == 2 ? c18x_session(b, 1) : NULL;
    if (s) { t12c_auth_append_at(b, (int)t12c_in_handles(ord), pend, s, chance(90), chance(4) ? 1 + rnd(3) : 0, 0); s->live = 0; /* re-learnt from the answer below */ }
    else c18_trailer(b);
}
/* after an authorized command: keep the session when the TPM kept it */
static void c18x_after(const Rsp *r, uint32_t ord, int kind, int ntr) {
    T12cSess *s = kind == 1 ? &c18x_own : kind == 2 ? &c18x_zero : NULL;
    if (!s || !s->handle) return;
    if (r->rc == 0 && ntr >= 1 && (r->tag == 0xC5 || r->tag == 0xC6)) { s->live = 1; t12c_auth_verify(r, ord, (int)t12c_out_handles(ord), s, r->tag == 0xC6 ? 2 : 1, 0); }
}

/* ---------- NV ordinals x special indices x tags x complete trailers ---------- */
static uint32_t c18x_nv_index(void) {
    static const uint32_t ix[] = {0x10000001u /* DIR */, 0xFFFFFFFFu /* LOCK */, 0 /* INDEX0 */, 0x10000001u, 0, 0x0000F004u /* TRIAL */,
                                  0x00011600u /* GPIO */, 0x10011200u /* D bit */, 0x00011200u, 0x00011201u, 0x00011202u, 0x00011203u, 0x00011204u, 0x00011205u};
    return ix[rnd(sizeof ix / sizeof ix[0])];
}
static uint32_t c18x_nv_size(void) { return (uint32_t[]){0, 0, 1, 19, 20, 20, 21, 8, 24, 100, 4200, 0xFFFFFFFFu}[rnd(12)]; }
static uint32_t c18x_nv_off(void) { return (uint32_t[]){0, 0, 0, 1, 19, 20, 21, 0xFFFFFFFFu, 0xFFFFFFF0u, 8}[rnd(10)]; }
/* builds tag | size | ordinal | body | trailers into b; returns the number of trailers and the kind of the first */
static int c18x_build_nv(Buf *b, uint32_t *ord_out, int *kind_out) {
    static const uint32_t ords[] = {T12_ORD_NV_ReadValue, T12_ORD_NV_WriteValue, T12_ORD_NV_ReadValue, T12_ORD_NV_WriteValue, 0xD0 /* ReadValueAuth */,
                                    0xCE /* WriteValueAuth */, T12_ORD_NV_DefineSpace, 0x19 /* DirWriteAuth */, 0x1A /* DirRead */};
    uint32_t ord = ords[rnd(sizeof ords / sizeof ords[0])];
    int ntag = rnd(3), ntr = chance(88) ? ntag : rnd(3);
    uint32_t idx = c18x_nv_index();
    t12_begin(b, (uint16_t)(T12_TAG0 + ntag), ord);
    switch (ord) {
    case T12_ORD_NV_ReadValue: case 0xD0: { uint32_t off = c18x_nv_off(), n = c18x_nv_size();
        if (chance(20)) { off = 0xFFFFFFF0u + rnd(16); n = (uint32_t)(0x100000000ULL - off) + rnd(8); }   /* offset + size wraps to a small in-range value */
        b_u32(b, idx); b_u32(b, off); b_u32(b, n); break; }
    case T12_ORD_NV_WriteValue: case 0xCE: { uint32_t n = c18x_nv_size(); if (n > 4300) n = 40; b_u32(b, idx); b_u32(b, c18x_nv_off()); b_u32(b, chance(92) ? n : c18_interesting_u32()); b_fill(b, n, rnd(3)); break; }
    case T12_ORD_NV_DefineSpace: {
        uint32_t at = (uint32_t[]){0x1, 0x10001, 0x2, 0x20002, 0x4, 0x40004, 0x2001, 0x4001, 0x8001, 0x80000001u, 0x1001, 0, 0x6, 0x60000}[rnd(14)];
        uint32_t sz = chance(70) ? rnd(64) : c18x_nv_size();
        b_u16(b, 0x0018); b_u32(b, idx);
        for (int k = 0; k < 2; k++) { b_u16(b, chance(90) ? 3 : rnd(5)); b_u8(b, 0); b_u8(b, 0); b_u8(b, chance(90) ? 0 : 1); b_u8(b, chance(85) ? 0x1f : (uint8_t)rnd64()); b_fill(b, 20, 1); }
        b_u16(b, 0x0017); b_u32(b, at); b_u8(b, rnd(2)); b_u8(b, rnd(2)); b_u8(b, rnd(2)); b_u32(b, sz); b_fill(b, 20, chance(50) ? 1 : 0); break; }
    case 0x19: b_u32(b, chance(80) ? 0 : c18_interesting_u32()); b_fill(b, 20, 0); break;
    default: b_u32(b, chance(80) ? 0 : c18_interesting_u32()); break;
    }
    size_t pend = b->n;
    int kind = (ord == 0xD0 || ord == 0xCE) ? (chance(70) ? 2 : 0) : (chance(65) ? 1 : 0);
    for (int i = 0; i < ntr; i++) c18x_trailer(b, ord, pend, i == 0 ? kind : 0);
    *ord_out = ord; *kind_out = ntr ? kind : 0;
    return ntr;
}
static void c18x_nv_special(Buf *b) {
    uint32_t ord; int kind; int ntr = c18x_build_nv(b, &ord, &kind);
    Rsp r = c18_run(b);
    c18x_after(&r, ord, kind, ntr);
}
/* an owner-authorized call of any ordinal: plausible body, correct owner HMAC */
static void c18x_authorized(Buf *b, uint32_t ord) {
    t12_begin(b, T12_TAG1, ord);
    if (chance(20)) b_u32(b, c18x_object_handle());
    if (!c18_valid_body(b, ord)) c18_structured_body(b);
    if (chance(15) && b->n > 10) c18_mutate(b);
    size_t pend = b->n;
    c18x_trailer(b, ord, pend, 1);
    Rsp r = c18_run(b);
    c18x_after(&r, ord, 1, 1);
}

/* ---------- commands wrapped in TPM_ExecuteTransport ---------- */
static void c18x_wrapped(Buf *b) {
    Buf *ib = &c18x_ib;
    if (!c18x_trans.live) {
        uint32_t at = chance(75) ? 0 : chance(50) ? T12C_TRANSPORT_LOG : chance(50) ? T12C_TRANSPORT_EXCLUSIVE : (T12C_TRANSPORT_LOG | T12C_TRANSPORT_EXCLUSIVE);
        if (t12c_establish_transport_attr(b, &c18x_trans, at) != 0) return;
    }
    /* the inner command */
    uint32_t ord = 0; int kind = 0, ntr = 0;
    switch (rnd(10)) {
    case 0: case 1: case 2: ntr = c18x_build_nv(ib, &ord, &kind); break;
    case 3: case 4: {                                       /* any ordinal, the usual body kinds */
        ord = c18_pick_ordinal(); int ntag = rnd(3); ntr = chance(80) ? ntag : rnd(3);
        t12_begin(ib, (uint16_t)(T12_TAG0 + ntag), ord);
        if (chance(70)) { if (!c18_valid_body(ib, ord)) c18_structured_body(ib); } else b_fill(ib, rnd(64), rnd(3));
        size_t pend = ib->n; kind = chance(50) ? 1 : 0;
        for (int i = 0; i < ntr; i++) c18x_trailer(ib, ord, pend, i == 0 ? kind : 0);
        break; }
    case 5: {                                               /* ordinals with handles outside DATAw */
        ord = (uint32_t[]){T12_ORD_Terminate_Handle, T12_ORD_FlushSpecific, T12_ORD_OSAP, T12_ORD_LoadKey2, 0x32 /* CertifyKey */, 0x21 /* GetPubKey */,
                           0xE7 /* nested ExecuteTransport */, T12_ORD_EstablishTransport, 0xE8 /* ReleaseTransportSigned */, 0x11 /* DSAP */, T12_ORD_SaveState, T12_ORD_Init}[rnd(12)];
        int ntag = rnd(3); ntr = chance(70) ? ntag : rnd(3);
        t12_begin(ib, (uint16_t)(T12_TAG0 + ntag), ord);
        int nh = rnd(3); for (int i = 0; i < nh; i++) b_u32(ib, chance(70) ? c18x_object_handle() : c18_interesting_u32());
        if (chance(60)) c18_structured_body(ib);
        size_t pend = ib->n;
        for (int i = 0; i < ntr; i++) c18x_trailer(ib, ord, pend, 0);
        break; }
    case 6: ord = T12_ORD_OIAP; t12_begin(ib, T12_TAG0, ord); break;
    case 7: ord = T12_ORD_GetTicks; t12_begin(ib, T12_TAG0 + rnd(3), ord); break;
    case 8: ord = T12_ORD_PcrRead; t12_begin(ib, T12_TAG0, ord); b_u32(ib, rnd(26)); break;
    default: ord = T12_ORD_Extend; t12_begin(ib, T12_TAG0 + (chance(80) ? 0 : rnd(3)), ord); b_u32(ib, rnd(24)); b_fill(ib, 20, 0); break;
    }
    /* the wrapped paramSize field and the number of bytes handed over: consistent, or not */
    uint32_t ps = (uint32_t)ib->n, wlen = (uint32_t)ib->n;
    switch (rnd(16)) {
    case 0: ps = 10; break;                                                         /* too short for its tag */
    case 1: ps = ps > 45 ? ps - 45 : 9; break;
    case 2: ps = ps - 1; break;
    case 3: ps = ps + 1 + rnd(90); break;
    case 4: ps = (uint32_t[]){0, 9, 11, 0xFFFFFFFFu, 0x80000000u, 44, 45, 54, 55, 89, 90, 99, 100}[rnd(13)]; break;
    case 5: wlen = rnd(12); break;                                                  /* the byte string itself truncated */
    case 6: wlen = wlen > 45 ? wlen - 45 + rnd(45) : rnd(wlen + 1); break;          /* inside the trailers */
    case 7: wlen = wlen > 20 ? wlen - 1 - rnd(20) : 0; ps = wlen; break;            /* consistent sizes, trailer cut short */
    default: break;
    }
    b_put32(ib, 2, ps);
    uint8_t *w = malloc(wlen ? wlen : 1); if (wlen) memcpy(w, ib->p, wlen);        /* exact-size copy */
    Rsp inner; int ver = -1;
    uint32_t rc = t12c_execute_transport(b, &c18x_trans, w, wlen, chance(96), chance(3) ? 1 + rnd(3) : 0, &inner, &ver);
    if (rc == 0) {
        tr_begin("xcmd maxbuf=%u hmac=%d", tpm12_maxbuf(), ver); trhex("req", w, wlen); trhex("rsp", inner.p, inner.len); tr_end();
        if ((ord == T12_ORD_OIAP || ord == T12_ORD_OSAP) && inner.rc == 0) g12_learn_handle(&inner);
        if (kind && ntr && wlen == ib->n && ps == ib->n) c18x_after(&inner, ord, kind, ntr);
    }
    free(w);
}
/* one step of the extended stream; returns 0 when the caller should issue its usual random command instead */
static int c18x_step(Buf *b) {
    uint32_t k = rnd(100);
    if (k < 9) { c18x_nv_special(b); return 1; }
    if (k < (c18x_owner ? 30u : 19u) && (c18x_owner || chance(5))) { c18x_wrapped(b); return 1; }   /* TPM_EstablishTransport needs an owner (TPM_NOSRK otherwise) */
    if (k < 40 && c18x_owner) { c18x_authorized(b, c18_pick_ordinal()); return 1; }
    if (k < 43 && c18x_keyblob) {                                                   /* key loading: the blob as it is / mutated */
        t12_begin(b, T12_TAG1, T12_ORD_LoadKey2); b_u32(b, 0x40000000u); b_bytes(b, c18x_keyblob, c18x_keybloblen);
        if (chance(70)) { int nm = 1 + rnd(3); for (int i = 0; i < nm; i++) c18_mutate(b); }
        size_t pend = b->n; T12cSess *s = c18x_session(b, 1);                        /* srkAuth is all zeros */
        if (s) { t12c_auth_append_at(b, 4, pend, s, 1, 0, 0); s->live = 0; } else c18_trailer(b);
        Rsp r = c18_run(b); c18x_after(&r, T12_ORD_LoadKey2, 2, 1);
        if (r.rc == 0 && r.len >= 14) c18x_key = g32(r.p + 10);
        return 1;
    }
    return 0;
}
#endif
