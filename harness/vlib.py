"""Shared machinery for bin/check: builds, generation of Gen/*.lean, lake, harness runs, evidence, verdicts."""
import hashlib, json, os, re, shutil, subprocess, sys, time, glob

VERIF = os.path.dirname(os.path.dirname(os.path.abspath(__file__)))
REPO = os.environ.get("VERIF_REPO", "/repo")
sys.path.insert(0, os.path.join(VERIF, "harness"))
import build as buildmod

LEAN = os.path.join(VERIF, "lean")
GEN = os.path.join(LEAN, "TpmVerif", "Gen")
CACHE = os.path.join(VERIF, ".cache")
REPLAYS = os.path.join(VERIF, "replays")
EVID = os.path.join(VERIF, "evidence")

TPM2_INC = ["-DHAVE_CONFIG_H", "-I.", "-I..", "-include", "tpm_library_conf.h", "-I../include/libtpms", "-I../include",
            "-DTPM_LIBTPMS_CALLBACKS", "-DTPM_NV_DISK", "-D_POSIX_", "-DTPM_POSIX",
            "-I", "./tpm2", "-I", "./tpm2/crypto", "-I", "./tpm2/crypto/openssl",
            "-DUSE_OPENSSL_FUNCTIONS_SYMMETRIC=1", "-DUSE_OPENSSL_FUNCTIONS_EC=1", "-DUSE_OPENSSL_FUNCTIONS_ECDSA=1",
            "-DUSE_OPENSSL_FUNCTIONS_RSA=1", "-DUSE_OPENSSL_FUNCTIONS_SSKDF=1", "-DUSE_EC_POINT_GET_AFFINE_COORDINATES_API=1"]
TPM12_INC = ["-DHAVE_CONFIG_H", "-I.", "-I..", "-include", "tpm_library_conf.h", "-I../include/libtpms", "-I../include",
             "-DTPM_V12", "-DTPM_PCCLIENT", "-DTPM_POSIX", "-DTPM_LIBTPMS_CALLBACKS", "-DTPM_NV_DISK", "-I", "./tpm12"]
SAN = ["-g", "-O1", "-fsanitize=address,undefined", "-fno-sanitize=alignment,bounds", "-fno-sanitize-recover=undefined", "-fno-omit-frame-pointer"]


class CheckError(Exception):
    pass


def sh(cmd, cwd=None, timeout=None, env=None, inp=None):
    r = subprocess.run(cmd, cwd=cwd, capture_output=True, text=True, timeout=timeout, env=env, input=inp)
    return r


def build_impl():
    try:
        return buildmod.build(plain=False, repo=REPO)
    except RuntimeError as e:
        raise CheckError(str(e))


def _write_if_changed(path, text):
    try:
        if open(path).read() == text:
            return False
    except OSError:
        pass
    os.makedirs(os.path.dirname(path), exist_ok=True)
    with open(path, "w") as f:
        f.write(text)
    return True


def run_extractor(name, libdir, inc, out_lean):
    """compile harness/<name>.c against the repo tree, run it, write Gen/<out_lean>.lean.
    Returns (ok, message)."""
    src = os.path.join(VERIF, "harness", name + ".c")
    exe = os.path.join(libdir, name)
    cmd = ["clang-14", "-w"] + inc + SAN + [src, os.path.join(libdir, "libtpms_san.a"), "-lcrypto",
                                            "-Wl,--allow-multiple-definition", "-o", exe]
    r = sh(cmd, cwd=os.path.join(REPO, "src"))
    if r.returncode != 0:
        return False, "extractor %s does not compile against the current tree:\n%s" % (name, r.stderr[-3000:])
    r = sh([exe], env=dict(os.environ, ASAN_OPTIONS="detect_leaks=0"))
    if r.returncode != 0:
        return False, "extractor %s failed to run: %s" % (name, r.stderr[-2000:])
    _write_if_changed(os.path.join(GEN, out_lean + ".lean"), r.stdout)
    return True, hashlib.sha256(r.stdout.encode()).hexdigest()[:16]


def tpm12_flags():
    """flags the repo's own build uses for tpm12/tpm_process.c (the ordinal table depends on them); falls back to TPM12_INC"""
    try:
        for srcfile, flags in buildmod.compile_commands(REPO):
            if srcfile == "tpm12/tpm_process.c":
                return [f for f in flags if not f.startswith("-W")]
    except Exception:
        pass
    return TPM12_INC


EXTRACTORS = [("extract_consts", TPM2_INC, "Consts"), ("extract_blob", TPM2_INC, "Blob"), ("extract_cmds", TPM2_INC, "Cmds"), ("extract_pcr", TPM2_INC, "Pcr"), ("extract_nv", TPM2_INC, "Nv"), ("extract_profile", TPM2_INC, "Profile"),
              ("extract_tpm12", tpm12_flags, "Tpm12")]


def gen_all(libdir):
    """TRANSLATOR: regenerate every Gen/*.lean from the current tree."""
    hashes = {}
    for name, inc, out in EXTRACTORS:
        ok, msg = run_extractor(name, libdir, inc() if callable(inc) else inc, out)
        if not ok:
            raise CheckError("broken tie (translator): " + msg)
        hashes[out] = msg
    return hashes


def build_harness(libdir):
    exe = os.path.join(libdir, "tpmdrv")
    srcs = sorted(glob.glob(os.path.join(VERIF, "harness", "*.[ch]")))
    stamp = hashlib.sha256(b"".join(open(s, "rb").read() for s in srcs)).hexdigest()
    st = os.path.join(libdir, "tpmdrv.stamp")
    if os.path.exists(exe) and os.path.exists(st) and open(st).read() == stamp:
        return exe
    cmd = ["clang-14", "-w", "-DLIBTPMS_VERIF"] + TPM2_INC + SAN + [os.path.join(VERIF, "harness", "tpmdrv.c"),
           os.path.join(VERIF, "harness", "peek.c"),
           os.path.join(libdir, "libtpms_san.a"), "-lcrypto", "-lpthread", "-o", exe]
    r = sh(cmd, cwd=os.path.join(REPO, "src"))
    if r.returncode != 0:
        raise CheckError("harness does not build against the current tree (broken tie):\n" + r.stderr[-4000:])
    open(st, "w").write(stamp)
    return exe


def lake_build(targets):
    """returns (ok, output)"""
    r = sh(["lake", "build"] + targets, cwd=LEAN, timeout=3000)
    return r.returncode == 0, (r.stdout + r.stderr)


def model_exe():
    return os.path.join(LEAN, ".lake", "build", "bin", "tpmmodel")


FORBIDDEN = re.compile(r"\bsorry\b|\badmit\b|^\s*axiom\s|native_decide|bv_decide|implemented_by|\bunsafe\s|maxHeartbeats\s+0\b")
ALLOWED_AXIOMS = {"propext", "Classical.choice", "Quot.sound"}


def strip_comments(text):
    # remove /- ... -/ (nested not handled beyond one level) and -- comments
    out = []
    i = 0
    depth = 0
    n = len(text)
    while i < n:
        if text.startswith("/-", i):
            depth += 1; i += 2; continue
        if depth and text.startswith("-/", i):
            depth -= 1; i += 2; continue
        if depth:
            if text[i] == "\n": out.append("\n")
            i += 1; continue
        if text.startswith("--", i):
            j = text.find("\n", i)
            if j < 0: break
            i = j; continue
        out.append(text[i]); i += 1
    return "".join(out)


def textual_scan():
    hits = []
    for f in glob.glob(os.path.join(LEAN, "**", "*.lean"), recursive=True):
        if "/.lake/" in f:
            continue
        body = strip_comments(open(f).read())
        # string literals may legitimately mention words; drop them
        body = re.sub(r'"(\\.|[^"\\])*"', '""', body)
        for ln, line in enumerate(body.splitlines(), 1):
            if FORBIDDEN.search(line):
                hits.append("%s:%d: %s" % (os.path.relpath(f, VERIF), ln, line.strip()[:120]))
    return hits


def theorems_in(module_file):
    """names of theorems declared in a Props file (fully qualified by the namespaces in effect)"""
    text = strip_comments(open(module_file).read())
    names = []
    ns = []
    for line in text.splitlines():
        m = re.match(r"\s*namespace\s+(\S+)", line)
        if m:
            ns.append(m.group(1)); continue
        m = re.match(r"\s*end\s+(\S+)", line)
        if m and ns and ns[-1] == m.group(1):
            ns.pop(); continue
        m = re.match(r"\s*(?:@\[[^\]]*\]\s*)?(?:private\s+|protected\s+)?theorem\s+([^\s:({\[]+)", line)
        if m:
            names.append(".".join(ns + [m.group(1)]))
    return names


def audit(prop):
    """#print axioms on every theorem of Props/<prop>.lean; returns (obligations, discharged, details, problems)"""
    pf = os.path.join(LEAN, "TpmVerif", "Props", prop + ".lean")
    names = theorems_in(pf)
    if not names:
        return 0, 0, [], ["no theorems found in Props/%s.lean" % prop]
    src = "import TpmVerif.Props.%s\n" % prop + "".join("#print axioms %s\n" % n for n in names)
    tmp = os.path.join(LEAN, ".lake", "audit_%s.lean" % prop)
    os.makedirs(os.path.dirname(tmp), exist_ok=True)
    open(tmp, "w").write(src)
    r = sh(["lake", "env", "lean", tmp], cwd=LEAN, timeout=1200)
    out = r.stdout + r.stderr
    details = []
    problems = []
    discharged = 0
    # output: "'name' depends on axioms: [a, b]" or "'name' does not depend on any axioms"
    flat = re.sub(r"\s+", " ", out)
    for n in names:
        m = re.search(r"'%s' (does not depend on any axioms|depends on axioms: \[([^\]]*)\])" % re.escape(n), flat)
        if not m:
            problems.append("no axiom report for %s" % n)
            continue
        axs = [a.strip() for a in (m.group(2) or "").split(",") if a.strip()]
        bad = [a for a in axs if a not in ALLOWED_AXIOMS]
        details.append({"theorem": n, "axioms": axs})
        if bad:
            problems.append("%s depends on non-accepted axioms %s" % (n, bad))
        else:
            discharged += 1
    if r.returncode != 0 and not problems:
        problems.append("audit file failed: " + out[-500:])
    return len(names), discharged, details, problems


def write_evidence(prop, tier, seed, coverage, wall, violations, assumptions):
    os.makedirs(EVID, exist_ok=True)
    ev = {"property_id": prop, "tier": tier, "seed": seed, "level": "proof", "coverage": coverage,
          "assumptions": assumptions, "wall_s": round(wall, 1), "violations": violations}
    with open(os.path.join(EVID, prop + ".json"), "w") as f:
        json.dump(ev, f, indent=1)


def load_known():
    known = []
    p = os.path.join(VERIF, "known_findings.txt")
    if os.path.exists(p):
        for line in open(p):
            line = line.strip()
            if line.startswith("known:"):
                d = dict(kv.split("=", 1) for kv in line.split()[1:] if "=" in kv and kv.split("=")[0] in ("property", "sig"))
                d["text"] = line
                known.append(d)
    return known
