/* C13, second part: Camellia / TDES in every mode (block function = OpenSSL's ECB primitive called directly, the mode
   construction and IV chaining are recomputed in Lean), ECDH and ECDSA on every named curve with a known private key,
   RSA paddings (RSAES, OAEP, PSS, RSASSA with every hash) in both directions. */
#include <openssl/evp.h>
#include <openssl/ec.h>
#include <openssl/bn.h>
#include <openssl/rsa.h>
#include <openssl/obj_mac.h>

#define ALG_TDES 0x0003
#define ALG_CAMELLIA 0x0026
#define ALG_RSAES 0x0015

static const EVP_CIPHER *c13_ecb(uint16_t alg, int bits) {
    if (alg == ALG_CAMELLIA) return bits == 128 ? EVP_camellia_128_ecb() : bits == 192 ? EVP_camellia_192_ecb() : EVP_camellia_256_ecb();
    if (alg == ALG_TDES) return bits == 128 ? EVP_des_ede_ecb() : EVP_des_ede3_ecb();
    return bits == 128 ? EVP_aes_128_ecb() : bits == 192 ? EVP_aes_192_ecb() : EVP_aes_256_ecb();
}
/* one block through the raw block function */
static void c13_E(uint16_t alg, int bits, const uint8_t *key, const uint8_t *in, uint8_t *out, int bs) {
    EVP_CIPHER_CTX *c = EVP_CIPHER_CTX_new(); int l = 0, l2 = 0;
    if (EVP_EncryptInit_ex(c, c13_ecb(alg, bits), NULL, key, NULL) != 1) die("c13_E: cipher init");
    EVP_CIPHER_CTX_set_padding(c, 0);
    EVP_EncryptUpdate(c, out, &l, in, bs); EVP_EncryptFinal_ex(c, out + l, &l2);
    EVP_CIPHER_CTX_free(c);
}
static int g_c13_tabn;
static void c13_tab1(uint16_t alg, int bits, const uint8_t *key, const uint8_t *x, int bs, uint8_t *yout) {
    uint8_t y[16]; c13_E(alg, bits, key, x, y, bs);
    fputs(g_c13_tabn++ ? "," : " tab=", g_tr);
    for (int i = 0; i < bs; i++) fprintf(g_tr, "%02x", x[i]); fputc(':', g_tr); for (int i = 0; i < bs; i++) fprintf(g_tr, "%02x", y[i]);
    if (yout) memcpy(yout, y, bs);
}
/* the block-function values the mode construction needs, as a table x:E(x) */
static void c13_tab(uint16_t alg, int bits, const uint8_t *key, uint16_t mode, int dec, const uint8_t *iv, const uint8_t *in, int n, const uint8_t *out, int bs) {
    const uint8_t *P = dec ? out : in, *C = dec ? in : out; int nb = (n + bs - 1) / bs; uint8_t x[16];
    g_c13_tabn = 0;
    if (mode == ALG_CFB) { c13_tab1(alg, bits, key, iv, bs, NULL); for (int i = 0; i + 1 < nb; i++) c13_tab1(alg, bits, key, C + i * bs, bs, NULL); }
    else if (mode == ALG_CBC) { for (int i = 0; i < nb; i++) { for (int k = 0; k < bs; k++) x[k] = P[i * bs + k] ^ (i ? C[(i - 1) * bs + k] : iv[k]); c13_tab1(alg, bits, key, x, bs, NULL); } }
    else if (mode == ALG_ECB) { for (int i = 0; i < nb; i++) c13_tab1(alg, bits, key, P + i * bs, bs, NULL); }
    else if (mode == ALG_OFB) { memcpy(x, iv, bs); for (int i = 0; i < nb; i++) c13_tab1(alg, bits, key, x, bs, x); }
    else if (mode == ALG_CTR) { memcpy(x, iv, bs); for (int i = 0; i < nb; i++) { c13_tab1(alg, bits, key, x, bs, NULL); for (int k = bs - 1; k >= 0; k--) if (++x[k]) break; } }
    if (!g_c13_tabn) fputs(" tab=-", g_tr);
}
static uint32_t c13_make_symkey(Buf *b, uint16_t alg, const uint8_t *key, int bits) {
    Buf t = {0};
    b_u16(&t, ALG_SYMCIPHER); b_u16(&t, ALG_SHA256); b_u32(&t, 0x00060452u); b_u16(&t, 0); b_u16(&t, alg); b_u16(&t, bits); b_u16(&t, ALG_NULL); b_u16(&t, 0);
    cmd_begin(b, ST_SESSIONS, CC_CreatePrimary); b_u32(b, RH_NULL); auth_pw(b, "", 0);
    b_u16(b, 4 + bits / 8); b_u16(b, 0); b_2b(b, key, bits / 8);
    b_2b(b, t.p, t.n); b_u16(b, 0); b_u32(b, 0);
    b_free(&t);
    Rsp r = run(b);
    if (r.rc) tr("mkkey kind=3 alg=%u bits=%d rc=%u", alg, bits, r.rc);
    return (r.rc == 0 && r.len >= 14) ? g32(r.p + 10) : 0;
}
static void c13_sym2(Buf *b) {
    static const uint16_t MODES[5] = {ALG_CFB, ALG_CBC, ALG_CTR, ALG_OFB, ALG_ECB};
    uint16_t alg = chance(50) ? ALG_CAMELLIA : ALG_TDES;
    int bits = alg == ALG_TDES ? (chance(50) ? 128 : 192) : (int[]){128, 192, 256}[rnd(3)];
    int bs = alg == ALG_TDES ? 8 : 16;
    uint8_t key[32]; c13_fill(key, bits / 8);
    uint32_t h = c13_make_symkey(b, alg, key, bits);
    if (!h) { tr("sym2 rc=999 note=nokey alg=%u bits=%d", alg, bits); return; }
    uint16_t mode = MODES[rnd(5)];
    uint8_t iv[16]; c13_fill(iv, 16);
    /* counters about to carry: the low bytes all ff (or ff..fe), the carry then runs through every byte up to the first */
    if (mode == ALG_CTR && chance(40)) { int keep = chance(60) ? 1 : rnd(bs); for (int q = keep; q < bs; q++) iv[q] = 0xff; if (chance(40)) iv[bs - 1] = 0xfe - rnd(3); if (keep == 0 && chance(50)) iv[0] = 0xff; }
    uint8_t ivcur[16]; memcpy(ivcur, iv, 16);
    for (int call = 0; call < 2; call++) {
        int blocks = 1 + rnd(4); int n = bs * blocks; if ((mode == ALG_CFB || mode == ALG_CTR || mode == ALG_OFB) && call == 1 && chance(50)) n -= 1 + rnd(bs - 1);
        uint8_t in[80], out[80]; c13_fill(in, n); int dec = rnd(2);
        cmd_begin(b, ST_SESSIONS, CC_EncryptDecrypt2); b_u32(b, h); auth_pw(b, "", 0); b_2b(b, in, n); b_u8(b, dec); b_u16(b, mode); b_2b(b, ivcur, mode == ALG_ECB ? 0 : bs);
        Rsp r = run(b);
        tr_begin("sym2 alg=%u bits=%d bs=%d mode=%u decrypt=%d call=%d rc=%u", alg, bits, bs, mode, dec, call, r.rc); trhex("key", key, bits / 8); trhex("iv", ivcur, mode == ALG_ECB ? 0 : bs); trhex("in", in, n);
        if (r.rc == 0) { Rd rd = rsp_params(&r, 0); uint16_t ol, il; const uint8_t *o = r_2b(&rd, &ol); trhex("out", o, ol); const uint8_t *iv2 = r_2b(&rd, &il); trhex("ivout", iv2, il);
            if (ol == n) { memcpy(out, o, n); c13_tab(alg, bits, key, mode, dec, ivcur, in, n, out, bs); }
            if (il == bs) memcpy(ivcur, iv2, bs); }
        tr_end();
        if (r.rc) break;
    }
    c13_flush(b, h);
}

/* ---- ECC: a key with a known private scalar on every named curve ---- */
typedef struct { uint16_t id; int nid; int size; const char *p, *a, *b, *n, *gx, *gy; } C13Curve;
static const C13Curve C13_CURVES[] = {
    {1, NID_X9_62_prime192v1, 24}, {2, NID_secp224r1, 28}, {3, NID_X9_62_prime256v1, 32}, {4, NID_secp384r1, 48}, {5, NID_secp521r1, 66}, {0x20, NID_sm2, 32},
    {0x10, 0, 32, "FFFFFFFFFFFCF0CD46E5F25EEE71A49F0CDC65FB12980A82D3292DDBAED33013", "0", "3",
        "FFFFFFFFFFFCF0CD46E5F25EEE71A49E0CDC65FB1299921AF62D536CD10B500D", "1", "2"},
};
static EC_GROUP *c13_group(const C13Curve *c, BN_CTX *ctx) {
    if (c->nid) return EC_GROUP_new_by_curve_name(c->nid);
    BIGNUM *p = NULL, *a = NULL, *bb = NULL, *n = NULL, *gx = NULL, *gy = NULL;
    BN_hex2bn(&p, c->p); BN_hex2bn(&a, c->a); BN_hex2bn(&bb, c->b); BN_hex2bn(&n, c->n); BN_hex2bn(&gx, c->gx); BN_hex2bn(&gy, c->gy);
    EC_GROUP *g = EC_GROUP_new_curve_GFp(p, a, bb, ctx); EC_POINT *G = EC_POINT_new(g);
    EC_POINT_set_affine_coordinates(g, G, gx, gy, ctx); EC_GROUP_set_generator(g, G, n, BN_value_one());
    EC_POINT_free(G); BN_free(p); BN_free(a); BN_free(bb); BN_free(n); BN_free(gx); BN_free(gy);
    return g;
}
/* k*G as padded coordinates; k is reduced into [1, n-1] and written back */
static void c13_kG(const C13Curve *c, uint8_t *k, uint8_t *x, uint8_t *y) {
    BN_CTX *ctx = BN_CTX_new(); EC_GROUP *g = c13_group(c, ctx); if (!g) die("c13: no group for curve %u", c->id);
    BIGNUM *kb = BN_bin2bn(k, c->size, NULL), *n1 = BN_dup(EC_GROUP_get0_order(g)), *bx = BN_new(), *by = BN_new();
    BN_sub_word(n1, 1); BN_mod(kb, kb, n1, ctx); BN_add_word(kb, 1); BN_bn2binpad(kb, k, c->size);
    EC_POINT *q = EC_POINT_new(g); EC_POINT_mul(g, q, kb, NULL, NULL, ctx); EC_POINT_get_affine_coordinates(g, q, bx, by, ctx);
    BN_bn2binpad(bx, x, c->size); BN_bn2binpad(by, y, c->size);
    EC_POINT_free(q); BN_free(kb); BN_free(n1); BN_free(bx); BN_free(by); EC_GROUP_free(g); BN_CTX_free(ctx);
}
static void c13_rd_point(Rd *rd, uint8_t *x, uint16_t *xl, uint8_t *y, uint16_t *yl) {
    r_u16(rd); const uint8_t *p = r_2b(rd, xl); if (*xl <= 66) memcpy(x, p, *xl); else *xl = 0; p = r_2b(rd, yl); if (*yl <= 66) memcpy(y, p, *yl); else *yl = 0;
}
static void c13_ecc(Buf *b) {
    const C13Curve *c = &C13_CURVES[rnd(sizeof C13_CURVES / sizeof C13_CURVES[0])];
    int sz = c->size; uint8_t d[66], qx[66], qy[66]; c13_fill(d, sz); if (c->id == 5) d[0] &= 1;
    c13_kG(c, d, qx, qy);
    Buf pub = {0}, sens = {0};
    b_u16(&pub, ALG_ECC); b_u16(&pub, ALG_SHA256); b_u32(&pub, 0x00060440u); b_u16(&pub, 0);
    b_u16(&pub, ALG_NULL); b_u16(&pub, ALG_NULL); b_u16(&pub, c->id); b_u16(&pub, ALG_NULL); b_2b(&pub, qx, sz); b_2b(&pub, qy, sz);
    b_u16(&sens, ALG_ECC); b_u16(&sens, 0); b_u16(&sens, 0); b_2b(&sens, d, sz);
    cmd_begin(b, ST_NO_SESSIONS, CC_LoadExternal); b_2b(b, sens.p, sens.n); b_2b(b, pub.p, pub.n); b_u32(b, RH_NULL);
    Rsp r = run(b); b_free(&pub); b_free(&sens);
    tr_begin("ecload curve=%u rc=%u", c->id, r.rc); trhex("d", d, sz); trhex("qx", qx, sz); trhex("qy", qy, sz); tr_end();
    if (r.rc) return;
    uint32_t h = g32(r.p + 10);
    uint8_t x1[66], y1[66], x2[66], y2[66]; uint16_t a1, a2, a3, a4;
    /* ECDH_KeyGen: zPoint = d * pubPoint */
    cmd_begin(b, ST_NO_SESSIONS, CC_ECDH_KeyGen); b_u32(b, h); r = run(b);
    tr_begin("eckeygen curve=%u rc=%u", c->id, r.rc); trhex("d", d, sz);
    if (r.rc == 0) { Rd rd = rsp_params(&r, 0); c13_rd_point(&rd, x1, &a1, y1, &a2); c13_rd_point(&rd, x2, &a3, y2, &a4);
        trhex("zx", x1, a1); trhex("zy", y1, a2); trhex("px", x2, a3); trhex("py", y2, a4); }
    tr_end();
    /* ECDH_ZGen with a point on the curve, and with a point off the curve */
    for (int k = 0; k < 3; k++) {
        uint8_t e[66], ix[66], iy[66]; c13_fill(e, sz); if (c->id == 5) e[0] &= 1; c13_kG(c, e, ix, iy);
        if (k == 2) { if (chance(50)) iy[rnd(sz)] ^= 1 << rnd(8); else ix[rnd(sz)] ^= 1 << rnd(8); }
        cmd_begin(b, ST_SESSIONS, CC_ECDH_ZGen); b_u32(b, h); auth_pw(b, "", 0); b_u16(b, 4 + 2 * sz); b_2b(b, ix, sz); b_2b(b, iy, sz);
        r = run(b);
        tr_begin("eczgen curve=%u rc=%u", c->id, r.rc); trhex("d", d, sz); trhex("ix", ix, sz); trhex("iy", iy, sz);
        if (r.rc == 0) { Rd rd = rsp_params(&r, 0); c13_rd_point(&rd, x1, &a1, y1, &a2); trhex("ox", x1, a1); trhex("oy", y1, a2); }
        tr_end();
    }
    /* ECDSA with each hash; VerifySignature on the signature and on a corrupted one */
    for (int k = 0; k < 2; k++) {
        uint16_t ha = C13_ALGS[rnd(4)]; int hl = ha == ALG_SHA1 ? 20 : ha == ALG_SHA256 ? 32 : ha == ALG_SHA384 ? 48 : 64;
        uint8_t dg[64]; c13_fill(dg, hl);
        cmd_begin(b, ST_SESSIONS, CC_Sign); b_u32(b, h); auth_pw(b, "", 0); b_2b(b, dg, hl); b_u16(b, ALG_ECDSA); b_u16(b, ha); b_u16(b, 0x8024); b_u32(b, RH_NULL); b_u16(b, 0);
        Rsp s = run(b);
        tr_begin("ecdsa2 curve=%u hash=%u rc=%u", c->id, ha, s.rc); trhex("qx", qx, sz); trhex("qy", qy, sz); trhex("digest", dg, hl);
        if (s.rc == 0) { Rd q = rsp_params(&s, 0); r_u16(&q); r_u16(&q); uint16_t rl, sl; const uint8_t *rr = r_2b(&q, &rl); uint8_t rb[66]; if (rl > 66) rl = 66; memcpy(rb, rr, rl);
            const uint8_t *ss = r_2b(&q, &sl); uint8_t sb2[66]; if (sl > 66) sl = 66; memcpy(sb2, ss, sl);
            trhex("r", rb, rl); trhex("s", sb2, sl);
            for (int bad = 0; bad < 2 && rl && sl; bad++) {
                uint8_t r2[66], s2[66]; memcpy(r2, rb, rl); memcpy(s2, sb2, sl); if (bad) { if (chance(50)) r2[rnd(rl)] ^= 1 << rnd(8); else s2[rnd(sl)] ^= 1 << rnd(8); }
                Buf v = {0}; cmd_begin(&v, ST_NO_SESSIONS, CC_VerifySignature); b_u32(&v, h); b_2b(&v, dg, hl); b_u16(&v, ALG_ECDSA); b_u16(&v, ha); b_2b(&v, r2, rl); b_2b(&v, s2, sl);
                Rsp vr = run(&v); fprintf(g_tr, " verify%d=%u", bad, vr.rc); b_free(&v); } }
        tr_end();
    }
    c13_flush(b, h);
}

/* ---- RSA paddings with the key `h` (RSA-2048, scheme NULL, e = 65537) whose modulus is `mod` ---- */
static const EVP_MD *c13_md(uint16_t ha) { return ha == ALG_SHA1 ? EVP_sha1() : ha == ALG_SHA256 ? EVP_sha256() : ha == ALG_SHA384 ? EVP_sha384() : EVP_sha512(); }
static void c13_put_scheme(Buf *b, uint16_t scheme, uint16_t ha) { b_u16(b, scheme); if (scheme == ALG_OAEP) b_u16(b, ha); }
static Rsp c13_rsa_enc(Buf *b, uint32_t h, const uint8_t *m, int ml, uint16_t scheme, uint16_t ha, const uint8_t *label, int ll) {
    cmd_begin(b, ST_NO_SESSIONS, CC_RSA_Encrypt); b_u32(b, h); b_2b(b, m, ml); c13_put_scheme(b, scheme, ha); b_2b(b, label, ll); return run(b);
}
static Rsp c13_rsa_dec(Buf *b, uint32_t h, const uint8_t *c, int cl, uint16_t scheme, uint16_t ha, const uint8_t *label, int ll) {
    cmd_begin(b, ST_SESSIONS, CC_RSA_Decrypt); b_u32(b, h); auth_pw(b, "", 0); b_2b(b, c, cl); c13_put_scheme(b, scheme, ha); b_2b(b, label, ll); return run(b);
}
static void c13_tr_out(const char *rcname, const char *name, Rsp *r) {
    fprintf(g_tr, " %s=%u", rcname, r->rc);
    if (r->rc == 0) { uint16_t l; const uint8_t *o; if (r->p[0] == 0x80 && r->p[1] == 0x02) { Rd q = rsp_params(r, 0); o = r_2b(&q, &l); } else { l = g16(r->p + 10); o = r->p + 12; } trhex(name, o, l); }
}
static void c13_rsa_pad(Buf *b, uint32_t h, const uint8_t *mod) {
    const int k = 256;
    for (int round = 0; round < 6; round++) {
        uint16_t scheme = chance(50) ? ALG_RSAES : ALG_OAEP; uint16_t ha = C13_ALGS[rnd(4)]; int hl = EVP_MD_get_size(c13_md(ha));
        uint8_t label[24]; int ll = chance(50) ? 0 : 2 + rnd(20); for (int i = 0; i + 1 < ll; i++) label[i] = 1 + rnd(255); if (ll) label[ll - 1] = 0;
        if (scheme == ALG_RSAES) ll = 0;
        int maxm = scheme == ALG_RSAES ? k - 11 : k - 2 * hl - 2;
        /* (1) the TPM pads: Encrypt(scheme), raw Decrypt shows the encoded message, Decrypt(scheme) recovers the message */
        uint8_t m[256]; int ml = chance(15) ? maxm : chance(10) ? 0 : chance(10) ? maxm + 1 : (int)rnd(maxm + 1); c13_fill(m, ml);
        Rsp e = c13_rsa_enc(b, h, m, ml, scheme, ha, label, ll);
        tr_begin("rsapad scheme=%u hash=%u max=%d", scheme, ha, maxm); trhex("n", mod, k); trhex("label", label, ll); trhex("m", m, ml);
        uint8_t c[256]; int have = 0;
        fprintf(g_tr, " rc=%u", e.rc);
        if (e.rc == 0 && g16(e.p + 10) == k) { memcpy(c, e.p + 12, k); have = 1; trhex("c", c, k); }
        if (have) { Rsp d0 = c13_rsa_dec(b, h, c, k, ALG_NULL, 0, NULL, 0); c13_tr_out("rcraw", "em", &d0);
                    Rsp d1 = c13_rsa_dec(b, h, c, k, scheme, ha, label, ll); c13_tr_out("rcdec", "dec", &d1); }
        tr_end();
        /* (2) the reference pads: the harness builds the encoded message (valid or malformed), raw Encrypt, Decrypt(scheme) */
        uint8_t em[256]; int bad = chance(35) ? 1 + rnd(3) : 0; ml = (int)rnd(maxm + 1); c13_fill(m, ml);
        if (scheme == ALG_RSAES) {
            em[0] = 0; em[1] = 2; int ps = k - 3 - ml; for (int i = 0; i < ps; i++) em[2 + i] = 1 + rnd(255); em[2 + ps] = 0; memcpy(em + 3 + ps, m, ml);
            if (bad == 1) em[1] = 1; else if (bad == 2) em[2 + rnd(8)] = 0; else if (bad == 3) { for (int i = 2; i < k; i++) if (!em[i]) em[i] = 7; }
        } else {
            uint8_t db[256], seed[64], mask[256]; int dbl = k - hl - 1; unsigned int dl;
            EVP_Digest(label, ll, db, &dl, c13_md(ha), NULL); memset(db + hl, 0, dbl - hl); db[dbl - ml - 1] = 1; memcpy(db + dbl - ml, m, ml);
            if (bad == 1) db[rnd(hl)] ^= 1 << rnd(8); else if (bad == 2) db[dbl - ml - 1] = 2; else if (bad == 3 && dbl - ml - 1 > hl) db[hl] = 0x80;
            c13_fill(seed, hl);
            PKCS1_MGF1(mask, dbl, seed, hl, c13_md(ha)); for (int i = 0; i < dbl; i++) db[i] ^= mask[i];
            PKCS1_MGF1(mask, hl, db, dbl, c13_md(ha)); for (int i = 0; i < hl; i++) seed[i] ^= mask[i];
            em[0] = 0; memcpy(em + 1, seed, hl); memcpy(em + 1 + hl, db, dbl);
        }
        Rsp e2 = c13_rsa_enc(b, h, em, k, ALG_NULL, 0, NULL, 0);
        tr_begin("rsaunpad scheme=%u hash=%u bad=%d", scheme, ha, bad); trhex("n", mod, k); trhex("label", label, ll); trhex("em", em, k);
        fprintf(g_tr, " rc=%u", e2.rc);
        if (e2.rc == 0 && g16(e2.p + 10) == k) { memcpy(c, e2.p + 12, k); trhex("c", c, k);
            Rsp d1 = c13_rsa_dec(b, h, c, k, scheme, ha, label, ll); c13_tr_out("rcdec", "dec", &d1); }
        tr_end();
    }
    /* signatures: RSASSA and RSAPSS with every hash */
    for (int round = 0; round < 4; round++) {
        uint16_t scheme = chance(50) ? ALG_RSASSA : ALG_RSAPSS; uint16_t ha = C13_ALGS[rnd(4)]; int hl = EVP_MD_get_size(c13_md(ha));
        uint8_t dg[64]; c13_fill(dg, hl);
        cmd_begin(b, ST_SESSIONS, CC_Sign); b_u32(b, h); auth_pw(b, "", 0); b_2b(b, dg, hl); b_u16(b, scheme); b_u16(b, ha); b_u16(b, 0x8024); b_u32(b, RH_NULL); b_u16(b, 0);
        Rsp s = run(b);
        tr_begin("rsasig2 scheme=%u hash=%u rc=%u", scheme, ha, s.rc); trhex("n", mod, k); trhex("digest", dg, hl);
        if (s.rc == 0) { Rd q = rsp_params(&s, 0); r_u16(&q); r_u16(&q); uint16_t sl; const uint8_t *sg = r_2b(&q, &sl); trhex("sig", sg, sl);
            for (int bad = 0; bad < 2 && sl == k; bad++) {
                uint8_t s2[256]; memcpy(s2, sg, k); if (bad) s2[rnd(k)] ^= 1 << rnd(8);
                Buf v = {0}; cmd_begin(&v, ST_NO_SESSIONS, CC_VerifySignature); b_u32(&v, h); b_2b(&v, dg, hl); b_u16(&v, scheme); b_u16(&v, ha); b_2b(&v, s2, k);
                Rsp vr = run(&v); fprintf(g_tr, " verify%d=%u", bad, vr.rc); b_free(&v); } }
        tr_end();
    }
}

/* ---- AES-CMAC through TPM2_MAC and through MAC_Start / SequenceUpdate / SequenceComplete with every chunking ---- */
static void c13_cmac(Buf *b) {
    int bits = (int[]){128, 192, 256}[rnd(3)]; uint8_t key[32]; c13_fill(key, bits / 8);
    Buf t = {0}; b_u16(&t, ALG_SYMCIPHER); b_u16(&t, ALG_SHA256); b_u32(&t, 0x00040452u); b_u16(&t, 0); b_u16(&t, ALG_AES); b_u16(&t, bits); b_u16(&t, 0x003F /* CMAC */); b_u16(&t, 0);
    cmd_begin(b, ST_SESSIONS, CC_CreatePrimary); b_u32(b, RH_NULL); auth_pw(b, "", 0); b_u16(b, 4 + bits / 8); b_u16(b, 0); b_2b(b, key, bits / 8); b_2b(b, t.p, t.n); b_u16(b, 0); b_u32(b, 0); b_free(&t);
    Rsp r = run(b);
    if (r.rc != 0 || r.len < 14) { tr("cmac rc=%u note=nokey bits=%d", r.rc, bits); return; }
    uint32_t h = g32(r.p + 10);
    int oneshot = chance(40); int nch = oneshot ? 1 : 1 + rnd(4); char intr[8] = {0}; uint32_t rc = 0; uint32_t sh = 0;
    tr_begin("cmac bits=%d oneshot=%d", bits, oneshot); trhex("key", key, bits / 8); fprintf(g_tr, " chunks=");
    uint8_t mac[16]; int have = 0;
    if (!oneshot) { cmd_begin(b, ST_SESSIONS, 0x15B /* MAC_Start */); b_u32(b, h); auth_pw(b, "", 0); b_u16(b, 0); b_u16(b, ALG_NULL); r = run(b); if (r.rc) rc = r.rc; else sh = g32(r.p + 10); }
    for (int c = 0; c < nch && !rc; c++) {
        uint8_t m[200]; int n = (int[]){0, 1, 15, 16, 17, 31, 32, 33, 48, 64, 100}[rnd(11)]; c13_fill(m, n);
        if (c) fputc(',', g_tr); if (!n) fputc('-', g_tr); for (int i = 0; i < n; i++) fprintf(g_tr, "%02x", m[i]);
        if (oneshot) { cmd_begin(b, ST_SESSIONS, CC_HMAC /* TPM2_MAC */); b_u32(b, h); auth_pw(b, "", 0); b_2b(b, m, n); b_u16(b, ALG_NULL); r = run(b);
            if (r.rc) rc = r.rc; else { Rd rd = rsp_params(&r, 0); uint16_t l; const uint8_t *d = r_2b(&rd, &l); if (l == 16) { memcpy(mac, d, 16); have = 1; } } break; }
        if (c == nch - 1) { cmd_begin(b, ST_SESSIONS, CC_SequenceComplete); b_u32(b, sh); auth_pw(b, "", 0); b_2b(b, m, n); b_u32(b, RH_NULL); r = run(b);
            if (r.rc) rc = r.rc; else { Rd rd = rsp_params(&r, 0); uint16_t l; const uint8_t *d = r_2b(&rd, &l); if (l == 16) { memcpy(mac, d, 16); have = 1; } } break; }
        cmd_begin(b, ST_SESSIONS, CC_SequenceUpdate); b_u32(b, sh); auth_pw(b, "", 0); b_2b(b, m, n); r = run(b); if (r.rc) rc = r.rc;
        int it = rnd(3); intr[c] = '0' + it;
        if (it == 1) { cmd_begin(b, ST_NO_SESSIONS, CC_ContextSave); b_u32(b, sh); Rsp s = run(b);
            if (s.rc == 0) { uint8_t *ctx = malloc(s.len); uint32_t cn = s.len - 10; memcpy(ctx, s.p + 10, cn); c13_flush(b, sh);
                cmd_begin(b, ST_NO_SESSIONS, CC_ContextLoad); b_bytes(b, ctx, cn); Rsp l = run(b); free(ctx); if (l.rc == 0) sh = g32(l.p + 10); else rc = l.rc; } else rc = s.rc; }
        else if (it == 2) { if (tpm2_suspend_resume(NULL, NULL)) rc = 0xEEEE; }
    }
    fprintf(g_tr, " intr=%s rc=%u", intr[0] ? intr : "-", rc); if (have) trhex("mac", mac, 16); tr_end();
    if (rc && sh) c13_flush(b, sh);
    c13_flush(b, h);
}
