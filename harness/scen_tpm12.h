/* TPM 1.2 scenarios (C18 framing/mutation stream, C19 state blobs/write-through/faults, C20 core services).
 * Drives the REAL TPM 1.2 of the sanitized rebuild through the public API only:
 * TPMLIB_ChooseTPMVersion(1.2) / RegisterCallbacks / MainInit / Process / GetState / SetState / TPM_IO_Hash_*.
 * The harness never decides a property except for the model-free oracles it traces as flags (equalities of
 * byte strings it observed); every verdict is taken by the Lean checkers from the trace. */
#ifndef VERIF_SCEN_TPM12_H
#define VERIF_SCEN_TPM12_H

/* ---------- TPM 1.2 constants the harness needs to BUILD commands (never to judge answers) ---------- */
#define T12_TAG0 0x00C1
#define T12_TAG1 0x00C2
#define T12_TAG2 0x00C3
#define T12_ORD_OIAP 0x0A
#define T12_ORD_OSAP 0x0B
#define T12_ORD_Extend 0x14
#define T12_ORD_PcrRead 0x15
#define T12_ORD_GetRandom 0x46
#define T12_ORD_StirRandom 0x47
#define T12_ORD_SelfTestFull 0x50
#define T12_ORD_ContinueSelfTest 0x53
#define T12_ORD_GetTestResult 0x54
#define T12_ORD_ForceClear 0x5D
#define T12_ORD_GetCapability 0x65
#define T12_ORD_PhysicalEnable 0x6F
#define T12_ORD_PhysicalDisable 0x70
#define T12_ORD_SetOwnerInstall 0x71
#define T12_ORD_PhysicalSetDeactivated 0x72
#define T12_ORD_SetTempDeactivated 0x73
#define T12_ORD_CreateEndorsementKeyPair 0x78
#define T12_ORD_ReadPubek 0x7C
#define T12_ORD_Terminate_Handle 0x96
#define T12_ORD_Init 0x97
#define T12_ORD_SaveState 0x98
#define T12_ORD_Startup 0x99
#define T12_ORD_SHA1Start 0xA0
#define T12_ORD_SHA1Update 0xA1
#define T12_ORD_SHA1Complete 0xA2
#define T12_ORD_SHA1CompleteExtend 0xA3
#define T12_ORD_FlushSpecific 0xBA
#define T12_ORD_PCR_Reset 0xC8
#define T12_ORD_NV_DefineSpace 0xCC
#define T12_ORD_NV_WriteValue 0xCD
#define T12_ORD_NV_ReadValue 0xCF
#define T12_ORD_ReadCounter 0xDE
#define T12_ORD_GetTicks 0xF1
#define T12_ORD_SetCapability 0x3F
#define T12_ORD_DAA_Join 0x29
#define T12_ORD_LoadKey2 0x41
#define T12_ORD_EstablishTransport 0xE6
#define T12_TSC_PhysicalPresence 0x4000000Au
#define T12_TSC_ResetEstablishmentBit 0x4000000Bu
#define T12_RC_FAILEDSELFTEST 0x1C
#define T12_RC_INVALID_POSTINIT 0x26


/* ---------- crash isolation: every history runs in a forked child ----------
 * A sanitizer report / abort / hang inside the library ends only that child.  The parent records it in the trace
 * (`san kind=... site=... req=<the request that was being processed>`), and re-runs the same seeded history with the
 * offending call skipped, so one defect does not hide the rest of the campaign.  The Lean checkers turn every `san`
 * line into a SPEC[...] disagreement whose signature names the sanitizer kind and the function. */
#include <sys/mman.h>
#include <sys/wait.h>
#include <fcntl.h>
#include <ctype.h>
typedef struct { volatile long idx, reqlen, nskip; long skip[16]; uint8_t req[8192]; } IsoShared;
static IsoShared *g_iso;
static void iso_init(void) {
    if (g_iso) return;
    g_iso = mmap(NULL, sizeof(IsoShared), PROT_READ | PROT_WRITE, MAP_SHARED | MAP_ANONYMOUS, -1, 0);
    if (g_iso == MAP_FAILED) die("mmap");
    memset(g_iso, 0, sizeof *g_iso);
}
/* note the call about to be made (request bytes or a textual label); returns 1 when this call index must be skipped */
static int iso_before(const void *req, size_t n) {
    if (!g_iso) return 0;
    long k = g_iso->idx;
    g_iso->reqlen = (long)n;
    memcpy(g_iso->req, req, n < sizeof g_iso->req ? n : sizeof g_iso->req);
    for (long i = 0; i < g_iso->nskip; i++) if (g_iso->skip[i] == k) { g_iso->idx = k + 1; return 1; }
    return 0;
}
static void iso_after(void) { if (g_iso) g_iso->idx++; }
typedef void (*IsoFn)(int h, void *arg);
static void iso_sig(char *dst, size_t cap, const char *kind, const char *site) {
    size_t j = 0;
    for (const char *p = kind; *p && j + 1 < cap; p++) dst[j++] = (char)tolower((unsigned char)*p);
    if (j + 1 < cap) dst[j++] = '-';
    for (const char *p = site; *p && j + 1 < cap; p++) dst[j++] = isalnum((unsigned char)*p) ? (char)tolower((unsigned char)*p) : '-';
    dst[j] = 0;
}
static long g_iso_crashes;
static void iso_run(int h, uint64_t seed, IsoFn fn, void *arg, int timeout_s) {
    iso_init();
    g_iso->nskip = 0;
    char errpath[96]; snprintf(errpath, sizeof errpath, "/tmp/tpmdrv-%d-err.txt", (int)getpid());
    for (int attempt = 0; attempt < 8; attempt++) {
        g_iso->idx = 0; g_iso->reqlen = 0;
        fflush(g_tr); fflush(stdout); fflush(stderr);
        pid_t pid = fork();
        if (pid < 0) die("fork");
        if (pid == 0) {
            int fd = open(errpath, O_WRONLY | O_CREAT | O_TRUNC, 0600);
            if (fd >= 0) { dup2(fd, 2); close(fd); }
            setvbuf(g_tr, NULL, _IOLBF, 0);          /* a crash must not lose the lines already produced */
            alarm((unsigned)timeout_s);
            g_rng = seed; g_ent = seed ^ 0xDEADBEEFCAFEF00DULL;
            tr("hist %d attempt=%d", h, attempt);
            fn(h, arg);
            TPMLIB_Terminate();
            tr("histend %d cmds=%ld ok=%ld faults=%ld", h, g_n_cmds, g_n_ok, g_fault_fired);
            fflush(g_tr);
            free(g_respbuf); g_respbuf = NULL; g_respbufsize = 0;
            storage_reset();
            exit(0);                                  /* exit(), not _exit(): LeakSanitizer runs */
        }
        int st = 0;
        if (waitpid(pid, &st, 0) < 0) die("waitpid");
        if (WIFEXITED(st) && WEXITSTATUS(st) == 0) { unlink(errpath); return; }
        if (WIFEXITED(st) && WEXITSTATUS(st) == 3) {  /* die() in the child: harness error, not a library verdict */
            FILE *e = fopen(errpath, "r"); char line[512];
            if (e) { while (fgets(line, sizeof line, e)) fputs(line, stderr); fclose(e); }
            unlink(errpath); die("child harness error in history %d", h);
        }
        g_iso_crashes++;
        char kind[32] = "crash", site[128] = "unknown", line[1024], first[32][200], ubmsg[80] = ""; int nfirst = 0, leak = 0;
        if (WIFSIGNALED(st) && WTERMSIG(st) == SIGALRM) strcpy(kind, "timeout");
        else if (WIFSIGNALED(st)) snprintf(kind, sizeof kind, "signal%d", WTERMSIG(st));
        FILE *e = fopen(errpath, "r");
        if (e) {
            char frame_site[128] = "", ubsan_loc[160] = "";
            ubmsg[0] = 0;
            while (fgets(line, sizeof line, e)) {
                line[strcspn(line, "\n")] = 0;
                if (nfirst < 32 && line[0]) { snprintf(first[nfirst], sizeof first[0], "%s", line); nfirst++; }
                char *q;
                if (!frame_site[0] && (q = strstr(line, " in ")) && strstr(line, "/repo/")) sscanf(q + 4, "%127s", frame_site);
                if (strstr(line, "LeakSanitizer")) leak = 1;
                if (strstr(line, "ERROR: AddressSanitizer")) strcpy(kind, "asan");
                if ((q = strstr(line, ": runtime error:"))) {
                    strcpy(kind, "ubsan");
                    if (!ubmsg[0]) { snprintf(ubmsg, sizeof ubmsg, "%.60s", q + 17); for (char *c3 = ubmsg; *c3; c3++) if (!isalnum((unsigned char)*c3)) *c3 = '-'; }
                    if (!ubsan_loc[0]) {                       /* "<file>:<line>:<col>: runtime error: ..." -> "<file>:<line>" */
                        size_t n = (size_t)(q - line); if (n >= sizeof ubsan_loc) n = sizeof ubsan_loc - 1;
                        memcpy(ubsan_loc, line, n); ubsan_loc[n] = 0;
                        char *c2 = strrchr(ubsan_loc, ':'); if (c2) *c2 = 0;
                        char *sl = strstr(ubsan_loc, "/src/"); if (sl) memmove(ubsan_loc, sl + 5, strlen(sl + 5) + 1);
                    }
                }
                if (strstr(line, "VERIF-STALEJMP")) strcpy(kind, "stalejmp");
                if ((q = strstr(line, "SUMMARY:"))) {
                    char *in = strstr(q, " in ");
                    if (in && in[4]) sscanf(in + 4, "%127s", site);
                }
            }
            fclose(e);
            if (leak) strcpy(kind, "lsan");
            if (frame_site[0]) strcpy(site, frame_site);          /* the top-most frame inside /repo is the stable call site */
            if (!strcmp(site, "unknown") && ubsan_loc[0]) snprintf(site, sizeof site, "%s", ubsan_loc);
        }
        unlink(errpath);
        char sig[200]; iso_sig(sig, sizeof sig, kind, site);
        long n = g_iso->reqlen; if (n > (long)sizeof g_iso->req) n = sizeof g_iso->req;
        tr_begin("san hist=%d attempt=%d idx=%ld kind=%s site=%s sig=%s msg=%s status=%d", h, attempt, g_iso->idx, kind, site, sig, ubmsg[0] ? ubmsg : "-",
                 WIFEXITED(st) ? WEXITSTATUS(st) : -WTERMSIG(st));
        trhex("req", g_iso->req, (size_t)n); tr_end();
        for (int i = 0; i < nfirst; i++) {
            for (char *c = first[i]; *c; c++) if (*c == ' ' || *c == '=') *c = '_';
            tr("sanlog %s", first[i]);
        }
        fflush(g_tr);
        if (leak || g_iso->nskip >= 16) return;      /* a leak is reported at exit: the history itself completed */
        g_iso->skip[g_iso->nskip] = g_iso->idx; g_iso->nskip = g_iso->nskip + 1;
    }
}

static void tpm12_choose(void) {
    TPMLIB_Terminate();
    if (TPMLIB_ChooseTPMVersion(TPMLIB_TPM_VERSION_1_2) != TPM_SUCCESS) die("choose version 1.2");
    if (TPMLIB_RegisterCallbacks(&g_cbs) != TPM_SUCCESS) die("register callbacks");
}
/* brand new TPM 1.2 with empty storage */
static void tpm12_fresh(void) {
    tpm12_choose();
    storage_reset();
    g_locality = 0; g_pp = 0;
    TPM_RESULT r = TPMLIB_MainInit();
    if (r != TPM_SUCCESS) die("tpm12 maininit %u", r);
}
static uint32_t tpm12_maxbuf(void) { uint32_t mn = 0, mx = 0; return TPMLIB_SetBufferSize(0, &mn, &mx); }

static void t12_begin(Buf *b, uint16_t tag, uint32_t ord) { b_reset(b); b_u16(b, tag); b_u32(b, 0); b_u32(b, ord); }
static void b_fill(Buf *b, size_t n, int mode) {     /* mode 0 random, 1 zeros, 2 0xff, 3 counting */
    for (size_t i = 0; i < n; i++) b_u8(b, mode == 0 ? (uint8_t)rnd64() : mode == 1 ? 0 : mode == 2 ? 0xff : (uint8_t)i);
}
static Rsp t12_startup(Buf *b, uint16_t st) { t12_begin(b, T12_TAG0, T12_ORD_Startup); b_u16(b, st); return run(b); }
static Rsp t12_pp(Buf *b, uint16_t v) { t12_begin(b, T12_TAG0, T12_TSC_PhysicalPresence); b_u16(b, v); return run(b); }
static Rsp t12_simple(Buf *b, uint32_t ord) { t12_begin(b, T12_TAG0, ord); return run(b); }
static Rsp t12_pcrread(Buf *b, uint32_t i) { t12_begin(b, T12_TAG0, T12_ORD_PcrRead); b_u32(b, i); return run(b); }
static Rsp t12_getcap(Buf *b, uint32_t cap, uint32_t sub, int subsize) {
    t12_begin(b, T12_TAG0, T12_ORD_GetCapability); b_u32(b, cap); b_u32(b, subsize); if (subsize == 4) b_u32(b, sub); return run(b);
}
/* TPM_NV_DATA_PUBLIC + encAuth */
static void t12_nv_public(Buf *b, uint32_t idx, uint32_t attrs, uint32_t size) {
    b_u16(b, 0x0018); b_u32(b, idx);
    for (int k = 0; k < 2; k++) { b_u16(b, 3); b_u8(b, 0); b_u8(b, 0); b_u8(b, 0); b_u8(b, 0x1f); b_fill(b, 20, 1); }   /* pcrInfoRead/Write: no PCRs, all localities */
    b_u16(b, 0x0017); b_u32(b, attrs);
    b_u8(b, 0); b_u8(b, 0); b_u8(b, 0); b_u32(b, size);
}
static Rsp t12_nv_define(Buf *b, uint32_t idx, uint32_t attrs, uint32_t size) {
    t12_begin(b, T12_TAG0, T12_ORD_NV_DefineSpace); t12_nv_public(b, idx, attrs, size); b_fill(b, 20, 1); return run(b);
}
static Rsp t12_nv_write(Buf *b, uint32_t idx, uint32_t off, const uint8_t *d, uint32_t n) {
    t12_begin(b, T12_TAG0, T12_ORD_NV_WriteValue); b_u32(b, idx); b_u32(b, off); b_u32(b, n); b_bytes(b, d, n); return run(b);
}
static Rsp t12_nv_read(Buf *b, uint32_t idx, uint32_t off, uint32_t n) {
    t12_begin(b, T12_TAG0, T12_ORD_NV_ReadValue); b_u32(b, idx); b_u32(b, off); b_u32(b, n); return run(b);
}

/* ---------- session handles learnt from OIAP/OSAP answers (used to aim auth trailers at live sessions) ---------- */
static uint32_t g12_sess[8]; static int g12_nsess;
static void g12_learn_handle(const Rsp *r) { if (r->rc == 0 && r->len >= 14 && g12_nsess < 8) g12_sess[g12_nsess++] = g32(r->p + 10); }
static Rsp t12_oiap(Buf *b) { Rsp r = t12_simple(b, T12_ORD_OIAP); g12_learn_handle(&r); return r; }
static Rsp t12_osap(Buf *b, uint16_t et, uint32_t ev) {
    t12_begin(b, T12_TAG0, T12_ORD_OSAP); b_u16(b, et); b_u32(b, ev); b_fill(b, 20, 0);
    Rsp r = run(b); g12_learn_handle(&r); return r;
}

#include "t12_client.h"

/* =====================================================  C18  ===================================================== */

static long c18_failed_seen;
static uint32_t c18x_object_handle(void);
static void c18_trace(const uint8_t *req, uint32_t n, const Rsp *r, uint32_t maxbuf) {
    tr_begin("cmd ret=%u loc=%d maxbuf=%u bufsize=%u len=%u", r->ret, g_locality, maxbuf, r->bufsize, r->len);
    trhex("req", req, n);
    trhex("rsp", r->p, r->ret == 0 ? r->len : 0);
    tr_end();
}
static Rsp c18_run_raw(const uint8_t *req, uint32_t n) {
    uint32_t mb = tpm12_maxbuf();
    if (iso_before(req, n)) { Rsp z; memset(&z, 0, sizeof z); z.rc = 0xFFFFFFFF; tr("skipped idx=%ld", g_iso->idx - 1); return z; }
    Rsp r = run_raw(req, n);
    iso_after();
    c18_trace(req, n, &r, mb);
    return r;
}
static Rsp c18_run(Buf *b) { b_put32(b, 2, (uint32_t)b->n); return c18_run_raw(b->p, (uint32_t)b->n); }

static uint32_t c18_interesting_u32(void) {
    switch (rnd(15)) {
    case 13: { /* a count whose product with an element size wraps around 32 bits to (almost) nothing */
        static const uint32_t K[] = {2, 4, 8, 12, 16, 20, 24, 32, 36, 40, 48, 64}; uint32_t k = K[rnd(12)];
        return (uint32_t)((0x100000000ULL + k - 1) / k) + rnd(3); }
    case 0: return 0;
    case 1: return 1;
    case 2: return 0xFFFFFFFFu;
    case 3: return rnd(24);
    case 4: return chance(60) && g12_nsess ? g12_sess[rnd(g12_nsess)] : c18x_object_handle();
    case 5: return 0x40000000u;             /* TPM_KH_SRK */
    case 6: return 0x40000001u + rnd(6);    /* owner, revoke, transport, operator, admin, EK */
    case 7: return 0x00011200u + rnd(4);    /* NV indices the prefix defined */
    case 8: return 20;
    case 9: return 0x100 + rnd(0x30);       /* capability property codes */
    case 10: return rnd(70000);
    case 11: return 0x80000000u;
    case 12: return 1 + rnd(0x20);
    default: return (uint32_t)rnd64();
    }
}
static void c18_trailer(Buf *b) {           /* one authorization trailer: handle, nonceOdd, continue, authValue */
    b_u32(b, chance(70) && g12_nsess ? g12_sess[rnd(g12_nsess)] : c18_interesting_u32());
    b_fill(b, 20, 0); b_u8(b, chance(80) ? (uint8_t)rnd(2) : (uint8_t)rnd64()); b_fill(b, 20, 0);
}
/* valid (or nearly valid) bodies for the ordinals the harness knows how to build; returns 0 when it has none */
static int c18_valid_body(Buf *b, uint32_t ord) {
    switch (ord) {
    case T12_ORD_Startup: b_u16(b, chance(80) ? 1 + rnd(3) : (uint16_t)rnd64()); return 1;
    case T12_ORD_OIAP: case T12_ORD_SelfTestFull: case T12_ORD_ContinueSelfTest: case T12_ORD_GetTestResult: case T12_ORD_SaveState:
    case T12_ORD_SHA1Start: case T12_ORD_GetTicks: case T12_ORD_PhysicalEnable: case T12_ORD_PhysicalDisable: case T12_ORD_ForceClear:
    case T12_ORD_SetTempDeactivated: case T12_ORD_Init: case T12_TSC_ResetEstablishmentBit: return 1;
    case T12_ORD_OSAP: b_u16(b, chance(70) ? (uint16_t[]){1, 2, 4, 5, 0xA, 0xB, 0xC}[rnd(7)] : (uint16_t)rnd64()); b_u32(b, c18_interesting_u32()); b_fill(b, 20, 0); return 1;
    case T12_ORD_Extend: b_u32(b, chance(85) ? rnd(24) : c18_interesting_u32()); b_fill(b, 20, 0); return 1;
    case T12_ORD_PcrRead: b_u32(b, chance(85) ? rnd(24) : c18_interesting_u32()); return 1;
    case T12_ORD_PCR_Reset: { int n = chance(85) ? 3 : rnd(6); b_u16(b, n); for (int i = 0; i < n; i++) b_u8(b, chance(60) ? 0 : (uint8_t)rnd64()); return 1; }
    case T12_ORD_SHA1Update: { uint32_t n = chance(80) ? 64 * rnd(4) : rnd(200); b_u32(b, n); b_fill(b, n, 0); return 1; }
    case T12_ORD_SHA1Complete: { uint32_t n = chance(80) ? rnd(65) : rnd(200); b_u32(b, n); b_fill(b, n, 0); return 1; }
    case T12_ORD_SHA1CompleteExtend: { uint32_t n = chance(80) ? rnd(65) : rnd(200); b_u32(b, rnd(24)); b_u32(b, n); b_fill(b, n, 0); return 1; }
    case T12_ORD_GetRandom: b_u32(b, chance(80) ? rnd(300) : c18_interesting_u32()); return 1;
    case T12_ORD_StirRandom: { uint32_t n = rnd(300); b_u32(b, n); b_fill(b, n, 0); return 1; }
    case T12_ORD_GetCapability: {
        uint32_t cap = chance(85) ? (uint32_t[]){1, 2, 3, 4, 5, 6, 7, 8, 9, 0xC, 0xD, 0x10, 0x11, 0x12, 0x14, 0x15, 0x17, 0x18, 0x19, 0x1A}[rnd(20)] : c18_interesting_u32();
        b_u32(b, cap);
        switch (rnd(4)) {
        case 0: b_u32(b, 0); break;
        case 1: b_u32(b, 4); b_u32(b, c18_interesting_u32()); break;
        case 2: b_u32(b, 4); b_u32(b, 0x100 + rnd(0x28)); break;
        default: { uint32_t n = rnd(12); b_u32(b, n); b_fill(b, n, 0); } }
        return 1; }
    case T12_ORD_SetCapability: {
        b_u32(b, chance(80) ? 1 + rnd(4) : c18_interesting_u32()); b_u32(b, 4); b_u32(b, 1 + rnd(12));
        uint32_t n = chance(70) ? (rnd(2) ? 1 : 4) : rnd(10); b_u32(b, n); b_fill(b, n, chance(50) ? 1 : 0); return 1; }
    case T12_ORD_Terminate_Handle: b_u32(b, c18_interesting_u32()); return 1;
    case T12_ORD_FlushSpecific: b_u32(b, c18_interesting_u32()); b_u32(b, chance(85) ? 1 + rnd(10) : c18_interesting_u32()); return 1;
    case T12_ORD_ReadCounter: b_u32(b, chance(80) ? rnd(10) : c18_interesting_u32()); return 1;
    case T12_ORD_ReadPubek: b_fill(b, 20, 0); return 1;
    case T12_ORD_SetOwnerInstall: case T12_ORD_PhysicalSetDeactivated: b_u8(b, chance(90) ? rnd(2) : (uint8_t)rnd64()); return 1;
    case T12_TSC_PhysicalPresence: b_u16(b, chance(85) ? (uint16_t[]){0x20, 0x08, 0x10, 0x04, 0x40, 0x100, 0x200, 0x80}[rnd(chance(90) ? 3 : 8)] : (uint16_t)rnd64()); return 1;
    case T12_ORD_NV_DefineSpace: {
        uint32_t idx = chance(80) ? 0x00011200u + rnd(6) : c18_interesting_u32();
        uint32_t at = chance(60) ? 0 : chance(50) ? (uint32_t[]){1, 2, 4, 0x1000, 0x2000, 0x4000, 0x8000, 0x10000, 0x20000, 0x40000, 0x80000000u}[rnd(11)] : (uint32_t)rnd64();
        t12_nv_public(b, idx, at, chance(85) ? rnd(200) : c18_interesting_u32()); b_fill(b, 20, chance(50) ? 1 : 0); return 1; }
    case T12_ORD_NV_WriteValue: { uint32_t n = rnd(100); b_u32(b, 0x00011200u + rnd(6)); b_u32(b, chance(80) ? rnd(50) : c18_interesting_u32()); b_u32(b, n); b_fill(b, n, 0); return 1; }
    case T12_ORD_NV_ReadValue: if (chance(25)) { b_u32(b, 0x00011204u); b_u32(b, rnd(8)); b_u32(b, tpm12_maxbuf() - 40 + rnd(60)); return 1; }
        b_u32(b, 0x00011200u + rnd(6)); b_u32(b, chance(80) ? rnd(50) : c18_interesting_u32()); b_u32(b, chance(80) ? rnd(200) : c18_interesting_u32()); return 1;
    case T12_ORD_DAA_Join: { b_u32(b, c18_interesting_u32()); b_u8(b, rnd(26)); uint32_t n = rnd(40); b_u32(b, n); b_fill(b, n, 0); n = rnd(40); b_u32(b, n); b_fill(b, n, 0); return 1; }
    default: return 0;
    }
}
/* body made of plausible fields */
static void c18_structured_body(Buf *b) {
    int nf = rnd(8);
    for (int i = 0; i < nf; i++) {
        switch (rnd(6)) {
        case 0: case 1: b_u32(b, c18_interesting_u32()); break;
        case 2: b_u16(b, (uint16_t)c18_interesting_u32()); break;
        case 3: b_u8(b, (uint8_t)rnd(4)); break;
        case 4: b_fill(b, 20, rnd(3)); break;
        default: { uint32_t n = rnd(48); b_u32(b, chance(85) ? n : c18_interesting_u32()); b_fill(b, n, 0); } }
    }
}
static void c18_mutate(Buf *b) {
    size_t body = b->n - 10;
    switch (rnd(6)) {
    case 0: if (body) b->n = 10 + rnd((uint32_t)body); break;                               /* truncate */
    case 1: b_fill(b, 1 + rnd(chance(90) ? 40 : 6000), rnd(3)); break;                      /* over-long */
    case 2: if (body) b->p[10 + rnd((uint32_t)body)] ^= (uint8_t)(1u << rnd(8)); break;     /* bit flip */
    case 3: if (body >= 4) b_put32(b, 10 + rnd((uint32_t)body - 3), c18_interesting_u32()); break; /* field overwrite */
    case 4: if (body >= 2) b_put16(b, 10 + rnd((uint32_t)body - 1), (uint16_t)c18_interesting_u32()); break;
    default: if (body) b->p[10 + rnd((uint32_t)body)] = (uint8_t)rnd64(); break;
    }
}
/* ordinals the TPM itself reports as supported (TPM_GetCapability(TPM_CAP_ORD)): learnt through the public interface */
static uint32_t c18_sup[300]; static int c18_nsup;
static void c18_learn_ordinals(Buf *b) {
    c18_nsup = 0;
    for (uint32_t o = 0; o < 0x102; o++) {
        uint32_t ord = o < 0x100 ? o : (o == 0x100 ? T12_TSC_PhysicalPresence : T12_TSC_ResetEstablishmentBit);
        t12_begin(b, T12_TAG0, T12_ORD_GetCapability); b_u32(b, 1); b_u32(b, 4); b_u32(b, ord);
        Rsp r = c18_run(b);
        if (r.rc == 0 && r.len == 15 && r.p[14]) c18_sup[c18_nsup++] = ord;
    }
    tr("supported n=%d", c18_nsup);
}
static uint32_t c18_pick_ordinal(void) {
    uint32_t k = rnd(100);
    if (k < 70 && c18_nsup) return c18_sup[rnd(c18_nsup)];
    if (k < 80) return rnd(0x100);                              /* the whole 8-bit ordinal range: covers every table entry < 0x100 */
    if (k < 88) return 0x40000000u + rnd(16);                   /* TSC ordinals */
    if (k < 92) return (uint32_t)rnd64();
    if (k < 96) return 0x20000000u | rnd(0x100);                /* vendor bit */
    return rnd(0x1000);
}
static void c18_one(Buf *b, uint32_t ord) {
    uint16_t tag; int ntr;
    switch (rnd(20)) {
    case 0: tag = (uint16_t)rnd64(); ntr = rnd(3); break;
    case 1: tag = (uint16_t[]){0x00C4, 0x00C5, 0x00C6, 0x00C0, 0x0000, 0xFFFF, 0x8001, 0x8002, 0xC100}[rnd(9)]; ntr = rnd(3); break;
    case 2: tag = T12_TAG0 + rnd(3); ntr = rnd(3); break;     /* tag and trailer count chosen independently */
    default: ntr = rnd(3); tag = T12_TAG0 + ntr; break;
    }
    t12_begin(b, tag, ord);
    int kind = rnd(10);
    if (kind < 5) { if (!c18_valid_body(b, ord)) c18_structured_body(b); }
    else if (kind < 8) c18_structured_body(b);
    else b_fill(b, rnd(chance(95) ? 64 : 5000), rnd(3));
    int nm = chance(55) ? 0 : 1 + rnd(3);
    for (int i = 0; i < nm && b->n > 10; i++) c18_mutate(b);
    for (int i = 0; i < ntr; i++) c18_trailer(b);
    uint32_t ps = (uint32_t)b->n;
    if (chance(8)) ps = (uint32_t[]){0, 9, 10, ps - 1, ps + 1, 0xFFFFFFFFu, ps + 45, (uint32_t)rnd64()}[rnd(8)];
    b_put32(b, 2, ps);
    uint32_t n = (uint32_t)b->n;
    if (chance(3)) n = rnd(12);                                  /* whole-command truncation below / around the header */
    Rsp r = c18_run_raw(b->p, n);
    if (ord == T12_ORD_OIAP || ord == T12_ORD_OSAP) g12_learn_handle(&r);
}
#include "scen_tpm12_c18x.h"
/* health probe: GetTestResult (always allowed) + PCRRead(0) (answers TPM_FAILEDSELFTEST in the failed state) */
static int c18_health(Buf *b) {
    t12_begin(b, T12_TAG0, T12_ORD_GetTestResult); Rsp g = c18_run(b);
    t12_begin(b, T12_TAG0, T12_ORD_PcrRead); b_u32(b, 0); Rsp r = c18_run(b);
    tr("health gtr=%u pcrread=%u", g.rc, r.rc);
    uint32_t prc = r.rc;
    if (prc == T12_RC_INVALID_POSTINIT) { t12_begin(b, T12_TAG0, T12_ORD_Startup); b_u16(b, 1); c18_run(b); }
    return (int)prc;
}
static void c18_prefix(Buf *b, int h) {
    g12_nsess = 0;
    t12_begin(b, T12_TAG0, T12_ORD_Startup); b_u16(b, (h % 5 == 4) ? 3 : 1); c18_run(b);
    if (h % 4 == 3) { t12_begin(b, T12_TAG0, T12_ORD_ContinueSelfTest); c18_run(b); }
    t12_begin(b, T12_TAG0, T12_TSC_PhysicalPresence); b_u16(b, 0x20); c18_run(b);
    t12_begin(b, T12_TAG0, T12_TSC_PhysicalPresence); b_u16(b, 0x08); c18_run(b);
    if (h % 3 == 2) c18x_install_owner(b, h % 12 == 2);          /* EK + SRK (+ one wrapped key): 2-3 RSA key generations */
    if (h % 8 == 5) {                                            /* an endorsement key (one RSA-2048 generation) so that EK paths are live */
        t12_begin(b, T12_TAG0, T12_ORD_CreateEndorsementKeyPair); b_fill(b, 20, 0);
        b_u32(b, 1); b_u16(b, 3); b_u16(b, 1); b_u32(b, 12); b_u32(b, 2048); b_u32(b, 2); b_u32(b, 0);
        c18_run(b);
    }
    int ns = 1 + rnd(3);
    for (int i = 0; i < ns; i++) { t12_begin(b, T12_TAG0, T12_ORD_OIAP); Rsp r = c18_run(b); g12_learn_handle(&r); }
    for (int i = 0; i < 2; i++) {
        t12_begin(b, T12_TAG0, T12_ORD_OSAP); b_u16(b, (uint16_t[]){2, 4, 1, 0xB}[rnd(4)]); b_u32(b, i ? 0x40000000u : 0x00011200u); b_fill(b, 20, 0);
        Rsp r = c18_run(b); g12_learn_handle(&r);
    }
    for (int i = 0; i < 3; i++) { t12_begin(b, T12_TAG0, T12_ORD_Extend); b_u32(b, rnd(17)); b_fill(b, 20, 0); c18_run(b); }
    for (int i = 0; i < 3; i++) {
        t12_begin(b, T12_TAG0, T12_ORD_NV_DefineSpace); t12_nv_public(b, 0x00011200u + i, i == 2 ? 0x10001u : 0, 16 + 16 * i); b_fill(b, 20, 1); c18_run(b);
    }
    { uint8_t d[8] = {1, 2, 3, 4, 5, 6, 7, 8}; t12_begin(b, T12_TAG0, T12_ORD_NV_WriteValue); b_u32(b, 0x00011200u); b_u32(b, 0); b_u32(b, 8); b_bytes(b, d, 8); c18_run(b); }
    /* offset + size sums that wrap in 32 bits (found by the thorough tier: NV_WriteValue offset 0xFFFFFFFF) */
    { uint8_t d2[2] = {0xAA, 0x55};
      t12_begin(b, T12_TAG0, T12_ORD_NV_WriteValue); b_u32(b, 0x00011202u); b_u32(b, 0xFFFFFFFFu); b_u32(b, 2); b_bytes(b, d2, 2); c18_run(b);
      t12_begin(b, T12_TAG0, T12_ORD_NV_ReadValue); b_u32(b, 0x00011202u); b_u32(b, 0xFFFFFFF0u); b_u32(b, 0x18); c18_run(b); }
    /* responses around the negotiated buffer size: a 4200-byte NV area read with sizes that make the response end
       just below / at / above TPM12_GetBufferSize() (14 = header + length field) */
    t12_begin(b, T12_TAG0, T12_ORD_NV_DefineSpace); t12_nv_public(b, 0x00011204u, 0x10001u, 4200); b_fill(b, 20, 1); c18_run(b);
    { uint32_t mb = tpm12_maxbuf(); int32_t off[] = {-15, -14, -13, 0, 50};
      for (int i = 0; i < 5; i++) { t12_begin(b, T12_TAG0, T12_ORD_NV_ReadValue); b_u32(b, 0x00011204u); b_u32(b, 0); b_u32(b, (uint32_t)((int32_t)mb + off[i])); c18_run(b); } }
    /* nvLocked in a third of the histories: the NV permission checks are only made then */
    if (h % 3 == 1) { t12_begin(b, T12_TAG0, T12_ORD_NV_DefineSpace); t12_nv_public(b, 0xFFFFFFFFu, 0, 0); b_fill(b, 20, 1); Rsp r = c18_run(b); if (r.rc == 0) c18x_nvlocked = 1; }
    t12_begin(b, T12_TAG0, T12_ORD_SHA1Start); c18_run(b);
}
/* the stream contains PhysicalDisable / SetDeactivated / ForceClear ...: bring the TPM back to enabled+activated
 * (physical presence, PhysicalEnable, PhysicalSetDeactivated(FALSE), power cycle) so that the bodies stay reachable */
static int c18_repair(Buf *b) {
    t12_begin(b, T12_TAG0, T12_TSC_PhysicalPresence); b_u16(b, 0x20); c18_run(b);
    t12_begin(b, T12_TAG0, T12_TSC_PhysicalPresence); b_u16(b, 0x08); c18_run(b);
    t12_begin(b, T12_TAG0, T12_ORD_PhysicalEnable); c18_run(b);
    t12_begin(b, T12_TAG0, T12_ORD_PhysicalSetDeactivated); b_u8(b, 0); c18_run(b);
    TPMLIB_Terminate();
    TPM_RESULT ret = TPMLIB_MainInit();
    tr("restart ret=%u", ret);
    if (ret != TPM_SUCCESS) return 0;
    g12_nsess = 0;
    c18x_own.live = c18x_zero.live = c18x_trans.live = 0; c18x_key = 0;      /* sessions and loaded keys are gone */
    t12_begin(b, T12_TAG0, T12_ORD_Startup); b_u16(b, 1); c18_run(b);
    t12_begin(b, T12_TAG0, T12_TSC_PhysicalPresence); b_u16(b, 0x20); c18_run(b);
    t12_begin(b, T12_TAG0, T12_TSC_PhysicalPresence); b_u16(b, 0x08); c18_run(b);
    for (int i = 0; i < 2; i++) { t12_begin(b, T12_TAG0, T12_ORD_OIAP); Rsp r = c18_run(b); g12_learn_handle(&r); }
    t12_begin(b, T12_TAG0, T12_ORD_PcrRead); b_u32(b, 0); Rsp r = c18_run(b);
    tr("repair pcrread=%u", r.rc);
    return r.rc == 0;
}
static void c18_history(int h, void *arg) {
    int ncmds = *(int *)arg;
    Buf b = {0};
    tpm12_fresh();
    c18x_reset();
    if (h % 3 == 1) TPMLIB_SetBufferSize(3072 + rnd(1025), NULL, NULL); else TPMLIB_SetBufferSize(4096, NULL, NULL);
    tr("fresh maxbuf=%u", tpm12_maxbuf());
    c18_prefix(&b, h);
    /* every 8-bit ordinal and the TSC ordinals once with a plausible body, then the random stream */
    if (h % 4 == 0) {
        for (uint32_t o = 0; o < 0x100; o++) {
            if (o == T12_ORD_CreateEndorsementKeyPair || o == 0x7F) continue;   /* RSA key generation: only in the dedicated prefix */
            g_locality = rnd(5); c18_one(&b, o);
        }
        c18_one(&b, T12_TSC_PhysicalPresence); c18_one(&b, T12_TSC_ResetEstablishmentBit);
        int prc = c18_health(&b);
        if ((prc == T12_RC_FAILEDSELFTEST || prc == 6 || prc == 7) && !c18_repair(&b)) { b_free(&b); return; }
    }
    for (int i = 0; i < ncmds; i++) {
        if (chance(15)) g_locality = rnd(5);
        if (chance(3)) g_pp = rnd(2);
        if (!c18x_step(&b)) c18_one(&b, c18_pick_ordinal());
        /* the random trailers run into the dictionary-attack timeout: a power cycle now and then lets authorized commands through again */
        if (c18x_owner && i % 256 == 255 && !c18_repair(&b)) break;
        if (i % 64 == 63) {
            int prc = c18_health(&b);
            /* failed state (not persisted) / disabled / deactivated: power cycle and continue the history */
            if ((prc == T12_RC_FAILEDSELFTEST || prc == 6 || prc == 7) && !c18_repair(&b)) break;       /* could not be repaired: next history */
        }
    }
    c18_health(&b);
    b_free(&b); b_free(&c18x_ib); free(c18x_keyblob); c18x_keyblob = NULL;
}
static void scen_c18(int histories, int ncmds) {
    Buf b = {0};
    /* learn the supported ordinals once, in the parent (benign GetCapability calls on a fresh TPM) */
    tr("hist -1");
    tpm12_fresh();
    tr("fresh maxbuf=%u", tpm12_maxbuf());
    t12_begin(&b, T12_TAG0, T12_ORD_Startup); b_u16(&b, 1); c18_run(&b);
    c18_learn_ordinals(&b);
    TPMLIB_Terminate();
    b_free(&b);
    for (int h = 0; h < histories; h++) iso_run(h, rnd64(), c18_history, &ncmds, 300);
}

/* =====================================================  C20  ===================================================== */
/* abstract ops + observables; Model.Tpm12.Core predicts rc and output of every line */
static Rsp c20_run(Buf *b, const char *label) {
    b_put32(b, 2, (uint32_t)b->n);
    if (iso_before(b->p, b->n)) { Rsp z; memset(&z, 0, sizeof z); z.rc = 0xFFFFFFFF; tr("skipped idx=%ld %s", g_iso->idx - 1, label); return z; }
    Rsp r = run_raw(b->p, (uint32_t)b->n);
    iso_after();
    return r;
}
static void c20_obs(const char *name, const Rsp *r, const char *extra_fmt, ...) {
    tr_begin("op name=%s loc=%d ret=%u rc=%u stores=%ld", name, g_locality, r->ret, r->rc, g_store_perm_in_cmd);
    if (extra_fmt) { va_list ap; va_start(ap, extra_fmt); fputc(' ', g_tr); vfprintf(g_tr, extra_fmt, ap); va_end(ap); }
    trhex("out", r->len > 10 && r->rc == 0 ? r->p + 10 : NULL, r->len > 10 && r->rc == 0 ? r->len - 10 : 0);
}
static void c20_extend(Buf *b, uint32_t pcr, const uint8_t *d) {
    t12_begin(b, T12_TAG0, T12_ORD_Extend); b_u32(b, pcr); b_bytes(b, d, 20);
    Rsp r = c20_run(b, "extend"); if (r.rc == 0xFFFFFFFF && !r.len) return;
    c20_obs("extend", &r, "pcr=%u", pcr); trhex("d", d, 20); tr_end();
}
static void c20_pcrread(Buf *b, uint32_t pcr) {
    t12_begin(b, T12_TAG0, T12_ORD_PcrRead); b_u32(b, pcr);
    Rsp r = c20_run(b, "pcrread"); if (r.rc == 0xFFFFFFFF && !r.len) return;
    c20_obs("pcrread", &r, "pcr=%u", pcr); tr_end();
}
static void c20_pcrreset(Buf *b, const uint8_t *sel, int n) {
    t12_begin(b, T12_TAG0, T12_ORD_PCR_Reset); b_u16(b, (uint16_t)n); b_bytes(b, sel, n);
    Rsp r = c20_run(b, "pcrreset"); if (r.rc == 0xFFFFFFFF && !r.len) return;
    c20_obs("pcrreset", &r, NULL); trhex("sel", sel, n); tr_end();
}
static void c20_sha(Buf *b, const char *name, uint32_t ord, int with_pcr, uint32_t pcr, const uint8_t *d, uint32_t n) {
    t12_begin(b, T12_TAG0, ord);
    if (with_pcr) b_u32(b, pcr);
    if (ord != T12_ORD_SHA1Start) { b_u32(b, n); b_bytes(b, d, n); }
    Rsp r = c20_run(b, name); if (r.rc == 0xFFFFFFFF && !r.len) return;
    c20_obs(name, &r, "pcr=%u", pcr); trhex("d", d, n); tr_end();
}
static void c20_other(Buf *b) {            /* an unrelated ordinal between SHA-1 thread commands */
    if (chance(50)) { t12_begin(b, T12_TAG0, T12_ORD_GetTicks); } else { t12_begin(b, T12_TAG0, T12_ORD_GetRandom); b_u32(b, 4); }
    Rsp r = c20_run(b, "other"); if (r.rc == 0xFFFFFFFF && !r.len) return;
    tr("op name=other loc=%d ret=%u rc=%u stores=%ld", g_locality, r.ret, r.rc, g_store_perm_in_cmd);
}
static uint32_t c20_startup_st(Buf *b, uint16_t st) {
    t12_begin(b, T12_TAG0, T12_ORD_Startup); b_u16(b, st);
    Rsp r = c20_run(b, "startup"); if (r.rc == 0xFFFFFFFF && !r.len) return r.rc;
    c20_obs("startup", &r, "st=%u", st); tr_end();
    return r.rc;
}
static void c20_startup(Buf *b) { c20_startup_st(b, 1); }
static void c20_estget(void) {
    TPM_BOOL e = 0; TPM_RESULT ret = TPM_IO_TpmEstablished_Get(&e);
    tr("op name=estget loc=%d ret=0 rc=%u out=%02x", g_locality, ret, e ? 1 : 0);
}
static void c20_rand_bytes(uint8_t *d, uint32_t n) {
    int mode = rnd(8);
    for (uint32_t i = 0; i < n; i++) d[i] = mode == 0 ? 0 : mode == 1 ? 0xff : (uint8_t)rnd64();
}
#include "scen_tpm12_nv.h"
#include "scen_tpm12_flags.h"
static void c20_sha_thread(Buf *b) {
    static uint8_t d[8192];
    c20_sha(b, "sha1start", T12_ORD_SHA1Start, 0, 0, NULL, 0);
    int nup = rnd(5);
    for (int i = 0; i < nup; i++) {
        uint32_t n = 64 * rnd(chance(90) ? 6 : 63);
        if (chance(5)) n = 1 + rnd(200);                         /* not a multiple of 64 (mostly) */
        if (chance(2)) n = 64 * (63 + rnd(3));                   /* around maxNumBytes */
        c20_rand_bytes(d, n);
        if (chance(6)) c20_other(b);                              /* invalidates the thread */
        if (chance(4)) c20_pcrread(b, rnd(24));                   /* so does a PCR read */
        c20_sha(b, "sha1update", T12_ORD_SHA1Update, 0, 0, d, n);
    }
    uint32_t n = chance(92) ? rnd(65) : 65 + rnd(100);
    c20_rand_bytes(d, n);
    if (chance(5)) c20_other(b);
    if (chance(50)) c20_sha(b, "sha1complete", T12_ORD_SHA1Complete, 0, 0, d, n);
    else { if (chance(30)) g_locality = rnd(5); c20_sha(b, "sha1completeextend", T12_ORD_SHA1CompleteExtend, 1, chance(90) ? rnd(24) : 24 + rnd(10), d, n); }
}
static void c20_tis_hash(int complete) {
    static uint8_t d[4096];
    if (iso_before("TPM_IO_Hash_Start", 17)) return;
    long st0 = g_store_calls;
    TPM_RESULT ret = TPM_IO_Hash_Start(); iso_after();
    tr("op name=hashstart loc=%d ret=0 rc=%u stores=%ld out=-", g_locality, ret, g_store_calls - st0);
    int nd = rnd(5);
    for (int i = 0; i < nd; i++) {
        uint32_t n = chance(80) ? rnd(200) : rnd(4096);
        c20_rand_bytes(d, n);
        if (iso_before("TPM_IO_Hash_Data", 16)) return;
        ret = TPM_IO_Hash_Data(d, n); iso_after();
        tr_begin("op name=hashdata loc=%d ret=0 rc=%u out=-", g_locality, ret); trhex("d", d, n); tr_end();
    }
    if (!complete) return;
    if (iso_before("TPM_IO_Hash_End", 15)) return;
    ret = TPM_IO_Hash_End(); iso_after();
    tr("op name=hashend loc=%d ret=0 rc=%u out=-", g_locality, ret);
}
static int g_c20_tis_drill;   /* set by a scenario that borrows the history: begin with the TIS-hash-across-resume drill */
static void c20_history(int h, void *arg) {
    int maxops = *(int *)arg;
    Buf b = {0};
    uint8_t d[20] = {0};
    tpm12_fresh();
    c20nv_reset_notes();
    if (h % 3 == 2) TPMLIB_SetBufferSize(3072 + 64 * rnd(17), NULL, NULL); else TPMLIB_SetBufferSize(4096, NULL, NULL);
    tr("power maxbuf=%u", tpm12_maxbuf());
    if (h % 6 == 1) { c20fl_history(&b, 70 + rnd(60)); b_free(&b); return; }     /* the enable / activate / ownership / clear automaton */
    if (h % 7 == 6) { c20_pcrread(&b, 0); c20_extend(&b, 0, d); if (chance(50)) c20_tis_hash(1); c20nv_read(&b, 0x00011200u, 0, 4); c20nv_tscpp(&b, 0x20); }   /* before Startup */
    c20_startup(&b);
    /* drill: the TIS hash (TPM_IO_Hash_Start/Data at locality 4) left in flight across a suspend/resume through the state blobs,
       then completed: PCR 17 must hold the digest of everything hashed before and after */
    if (g_c20_tis_drill || h % 5 == 3) { g_locality = 4; c20_tis_hash(0);
        { unsigned char *blob[2] = {0}; uint32_t len[2] = {0}; TPM_RESULT sr = 0; enum TPMLIB_StateType ty[2] = {TPMLIB_STATE_PERMANENT, TPMLIB_STATE_VOLATILE};
          for (int k = 0; k < 2; k++) sr |= TPMLIB_GetState(ty[k], &blob[k], &len[k]);
          TPMLIB_Terminate(); for (int k = 0; k < 2; k++) sr |= TPMLIB_SetState(ty[k], blob[k], len[k]); sr |= TPMLIB_MainInit();
          for (int k = 0; k < 2; k++) free(blob[k]);
          tr("resume ret=%u", sr); if (sr != TPM_SUCCESS) { b_free(&b); return; } }
        c20_rand_bytes(d, 20); if (!iso_before("TPM_IO_Hash_Data", 16)) { TPM_RESULT hr = TPM_IO_Hash_Data(d, 20); iso_after(); tr_begin("op name=hashdata loc=%d ret=0 rc=%u out=-", g_locality, hr); trhex("d", d, 20); tr_end(); }
        if (!iso_before("TPM_IO_Hash_End", 15)) { TPM_RESULT hr = TPM_IO_Hash_End(); iso_after(); tr("op name=hashend loc=%d ret=0 rc=%u out=-", g_locality, hr); }
        g_locality = 0; c20_pcrread(&b, 17); }
    /* NV storage: two histories out of three mix NV commands into the PCR/SHA-1 stream; the usual preparation
       (command presence enabled and asserted, a first area) comes first in most of them */
    int nvpct = (h % 3 == 0) ? 0 : (h % 3 == 1) ? 45 : 75;
    if (nvpct && chance(80)) { c20nv_tscpp(&b, 0x20); c20nv_tscpp(&b, 0x08); c20nv_define(&b, 0x00011200u, NVP_PPWRITE | NVP_WRITEDEFINE, 16, 0x1f, 0x1f); }
    if (nvpct && chance(35)) c20nv_define(&b, T12_NV_INDEX_LOCK, 0, 0, 0x1f, 0x1f);
    if (h % 8 == 4 || h % 8 == 7) { nvpct = 70; c20nv_install_owner(&b); if (chance(70)) c20nv_define(&b, T12_NV_INDEX_LOCK, 0, 0, 0x1f, 0x1f); }   /* two RSA key generations */
    int n = 10 + rnd(maxops), tis_open = 0;
    for (int i = 0; i < n; i++) {
        if (chance(20)) g_locality = rnd(5);
        if (nvpct && chance((uint32_t)nvpct)) {
            long before = g_store_calls;
            if (c20nv_owner && chance(25)) c20ctr_random(&b);
            else if (c20nv_owner && chance(50)) c20nv_random_owner(&b); else c20nv_random(&b);
            /* a power cycle / suspend-resume placed immediately after the command, mostly when it wrote storage or set a
               lock (so that no later command re-writes the permanent state first) */
            if (chance(g_store_calls != before ? 12 : 3)) {
                if (tis_open) continue;
                int kind = rnd(10);
                if (kind < 5) {                                                     /* power cycle, Startup(ST_CLEAR) */
                    TPMLIB_Terminate(); TPM_RESULT ret = TPMLIB_MainInit();
                    tr("restart ret=%u maxbuf=%u", ret, tpm12_maxbuf());
                    if (ret != TPM_SUCCESS) { b_free(&b); return; }
                    if (chance(20)) { c20nv_read(&b, c20nv_pool_index(rnd(C20NV_POOL)), 0, 1); c20nv_tscpp(&b, 0x08); }   /* before Startup */
                    c20_startup(&b);
                    if (chance(10)) c20_startup_st(&b, 1 + rnd(2));                 /* a second Startup is refused */
                } else if (kind < 8) {                                              /* TPM_SaveState, power cycle, Startup(ST_STATE) */
                    c20nv_savestate(&b);
                    if (chance(15)) c20nv_getpub(&b, 0x00011200u);                  /* any command invalidates the saved state */
                    TPMLIB_Terminate(); TPM_RESULT ret = TPMLIB_MainInit();
                    tr("restart ret=%u maxbuf=%u", ret, tpm12_maxbuf());
                    if (ret != TPM_SUCCESS) { b_free(&b); return; }
                    if (c20_startup_st(&b, 2) != 0) {                               /* no saved state: failed state until the next power cycle */
                        c20nv_read(&b, 0x00011200u, 0, 1); c20_pcrread(&b, 0);
                        TPMLIB_Terminate(); ret = TPMLIB_MainInit();
                        tr("restart ret=%u maxbuf=%u", ret, tpm12_maxbuf());
                        if (ret != TPM_SUCCESS) { b_free(&b); return; }
                        c20_startup(&b);
                    }
                } else {                                                            /* suspend / resume through the state blobs */
                    unsigned char *blob[2] = {0}; uint32_t len[2] = {0}; TPM_RESULT ret = 0;
                    enum TPMLIB_StateType ty[2] = {TPMLIB_STATE_PERMANENT, TPMLIB_STATE_VOLATILE};
                    for (int k = 0; k < 2; k++) ret |= TPMLIB_GetState(ty[k], &blob[k], &len[k]);
                    TPMLIB_Terminate();
                    for (int k = 0; k < 2; k++) ret |= TPMLIB_SetState(ty[k], blob[k], len[k]);
                    ret |= TPMLIB_MainInit();
                    for (int k = 0; k < 2; k++) free(blob[k]);
                    tr("resume ret=%u", ret);
                    if (ret != TPM_SUCCESS) { b_free(&b); return; }
                }
                c20nv_audit(&b);
            }
            continue;
        }
        switch (rnd(20)) {
        case 0: case 1: case 2: case 3: case 4:
            c20_rand_bytes(d, 20); c20_extend(&b, chance(92) ? rnd(24) : (chance(50) ? 24 + rnd(8) : (uint32_t)rnd64()), d); break;
        case 5: case 6: case 7: c20_pcrread(&b, chance(92) ? rnd(24) : (chance(50) ? 24 : (uint32_t)rnd64())); break;
        case 8: case 9: case 10: {
            uint8_t sel[6] = {0}; int sz = chance(85) ? 3 : rnd(6);
            switch (rnd(5)) {
            case 0: if (sz == 3) sel[2] = (uint8_t)(1u << rnd(8)); break;                 /* one of 16..23 */
            case 1: if (sz == 3) sel[2] = (uint8_t)rnd64(); break;                         /* several of 16..23 */
            case 2: for (int k = 0; k < sz; k++) sel[k] = (uint8_t)rnd64(); break;         /* anything */
            case 3: if (chance(60) && sz) sel[rnd(sz)] = (uint8_t)(1u << rnd(8)); break;            /* exactly one PCR anywhere / nothing selected */
            default: if (sz == 3) { sel[2] = (uint8_t[]){0x81, 0x01, 0x80, 0x60, 0x10, 0x1E}[rnd(6)]; } else if (sz) sel[0] = 1; break; }
            c20_pcrreset(&b, sel, sz); break; }
        case 11: case 12: case 13: case 14: c20_sha_thread(&b); break;
        case 15:
            if (!tis_open) { int complete = chance(85); c20_tis_hash(complete); tis_open = !complete; }
            else {
                /* the TIS hash is in flight: a suspend/resume through the state blobs now must carry its SHA-1 context */
                if (chance(50)) { unsigned char *blob[2] = {0}; uint32_t len[2] = {0}; TPM_RESULT sr = 0;
                    enum TPMLIB_StateType ty[2] = {TPMLIB_STATE_PERMANENT, TPMLIB_STATE_VOLATILE};
                    for (int k = 0; k < 2; k++) sr |= TPMLIB_GetState(ty[k], &blob[k], &len[k]);
                    TPMLIB_Terminate();
                    for (int k = 0; k < 2; k++) sr |= TPMLIB_SetState(ty[k], blob[k], len[k]);
                    sr |= TPMLIB_MainInit();
                    for (int k = 0; k < 2; k++) free(blob[k]);
                    tr("resume ret=%u", sr);
                    if (sr != TPM_SUCCESS) { b_free(&b); return; }
                    if (chance(50)) { c20_rand_bytes(d, 20); if (!iso_before("TPM_IO_Hash_Data", 16)) { TPM_RESULT hr = TPM_IO_Hash_Data(d, 20); iso_after(); tr_begin("op name=hashdata loc=%d ret=0 rc=%u out=-", g_locality, hr); trhex("d", d, 20); tr_end(); } } }
                if (iso_before("TPM_IO_Hash_End", 15)) break;
                TPM_RESULT ret = TPM_IO_Hash_End(); iso_after(); tis_open = 0;
                tr("op name=hashend loc=%d ret=0 rc=%u out=-", g_locality, ret);
            }
            c20_estget(); break;
        case 16: {
            if (iso_before("TPM_IO_TpmEstablished_Reset", 27)) break;
            long st0 = g_store_calls;
            TPM_RESULT ret = TPM_IO_TpmEstablished_Reset(); iso_after();
            tr("op name=estreset loc=%d ret=0 rc=%u stores=%ld out=-", g_locality, ret, g_store_calls - st0); c20_estget(); break; }
        case 17: {  /* power cycle: permanent state from storage, PCRs back to their initial values */
            if (!chance(30)) { c20_rand_bytes(d, 20); c20_extend(&b, 16 + rnd(8), d); break; }   /* MainInit is slow (self tests) */
            TPMLIB_Terminate(); TPM_RESULT ret = TPMLIB_MainInit();
            tr("restart ret=%u maxbuf=%u", ret, tpm12_maxbuf()); tis_open = 0;
            if (ret != TPM_SUCCESS) { b_free(&b); return; }
            if (chance(15)) c20_pcrread(&b, rnd(24));
            c20_startup(&b); c20_estget(); break; }
        case 18: {  /* suspend / resume through the three state blobs: nothing observable may change */
            if (!chance(30)) { c20_pcrread(&b, 16 + rnd(8)); break; }
            unsigned char *blob[3] = {0}; uint32_t len[3] = {0}; TPM_RESULT ret = 0;
            enum TPMLIB_StateType ty[3] = {TPMLIB_STATE_PERMANENT, TPMLIB_STATE_VOLATILE, TPMLIB_STATE_SAVE_STATE};
            for (int k = 0; k < 2; k++) ret |= TPMLIB_GetState(ty[k], &blob[k], &len[k]);
            TPMLIB_Terminate();
            for (int k = 0; k < 2; k++) ret |= TPMLIB_SetState(ty[k], blob[k], len[k]);
            ret |= TPMLIB_MainInit();
            for (int k = 0; k < 3; k++) free(blob[k]);
            tr("resume ret=%u", ret);
            if (ret != TPM_SUCCESS) { b_free(&b); return; }
            break; }
        default: c20_other(&b); break;
        }
    }
    /* the error routes of the TIS interface put the TPM into the failed state: only at the end of a history */
    if (h % 5 == 4) {
        if (tis_open) { TPM_RESULT ret = TPM_IO_Hash_End(); tr("op name=hashend loc=%d ret=0 rc=%u out=-", g_locality, ret); }
        c20_rand_bytes(d, 20);
        if (chance(50)) { TPM_RESULT ret = TPM_IO_Hash_End(); tr("op name=hashend loc=%d ret=0 rc=%u out=-", g_locality, ret); }
        else { TPM_RESULT ret = TPM_IO_Hash_Data(d, 20); tr_begin("op name=hashdata loc=%d ret=0 rc=%u out=-", g_locality, ret); trhex("d", d, 20); tr_end(); }
        TPM_RESULT ret;
        c20_pcrread(&b, 3); c20_rand_bytes(d, 20); c20_extend(&b, 3, d); c20_sha(&b, "sha1start", T12_ORD_SHA1Start, 0, 0, NULL, 0);
        TPMLIB_Terminate(); ret = TPMLIB_MainInit();
        tr("restart ret=%u maxbuf=%u", ret, tpm12_maxbuf());
        if (ret == TPM_SUCCESS) { c20_startup(&b); c20_pcrread(&b, 3); c20_pcrread(&b, 17); }
    }
    for (uint32_t i = 0; i < 24; i++) c20_pcrread(&b, i);
    if (nvpct) c20nv_audit(&b);
    b_free(&b);
}
static void scen_c20(int histories, int maxops) {
    for (int h = 0; h < histories; h++) iso_run(h, rnd64(), c20_history, &maxops, 300);
}

/* =====================================================  C19  ===================================================== */
/* model-free oracles traced as digests / flags; the Lean checker replays them through Model.Tpm12.Persist */
static void c19_sha(const uint8_t *p, uint32_t n, char out[41]) {
    uint8_t md[20]; SHA1(p, n, md);
    for (int i = 0; i < 20; i++) sprintf(out + 2 * i, "%02x", md[i]);
}
static void c19_live_perm(char out[41]) {       /* digest of TPMLIB_GetState(PERMANENT) of the running TPM */
    unsigned char *pb = NULL; uint32_t pl = 0;
    TPM_RESULT r = TPMLIB_GetState(TPMLIB_STATE_PERMANENT, &pb, &pl);
    if (r != TPM_SUCCESS || !pb) { snprintf(out, 41, "getstate-error-%u", r); free(pb); return; }
    c19_sha(pb, pl, out); free(pb);
}
static void c19_stored_perm(char out[41]) {
    if (!g_store[ST_PERM].present) { strcpy(out, "absent"); return; }
    c19_sha(g_store[ST_PERM].p, g_store[ST_PERM].n, out);
}
/* one command with the write-through observables */
static Rsp c19_cmd(Buf *b, const char *name) {
    b_put32(b, 2, (uint32_t)b->n);
    Rsp z; memset(&z, 0, sizeof z); z.rc = 0xFFFFFFFF;
    if (iso_before(b->p, b->n)) { tr("skipped idx=%ld %s", g_iso->idx - 1, name); return z; }
    long st0 = g_store_calls, ld0 = g_load_calls, ff0 = g_fault_fired;
    Rsp r = run_raw(b->p, (uint32_t)b->n);
    iso_after();
    char live[48], stored[48];
    c19_live_perm(live); c19_stored_perm(stored);
    tr("cmd name=%s ord=%u ret=%u rc=%u stores=%ld loads=%ld fault=%ld live=%s stored=%s", name, b->n >= 10 ? g32(b->p + 6) : 0, r.ret, r.rc,
       g_store_calls - st0, g_load_calls - ld0, g_fault_fired - ff0, live, stored);
    return r;
}
/* read-only battery: digest of the answers of a fixed list of read-only commands */
static int c19_battery_skip_resettable;      /* the battery around TPM_SaveState / Startup(ST_STATE) leaves out the resettable PCRs 16..23 */
static void c19_battery(Buf *b, const char *phase) {
    SHA_CTX c; SHA1_Init(&c); int n = 0, fails = 0;
#define BAT() do { b_put32(b, 2, (uint32_t)b->n); Rsp r = run_raw(b->p, (uint32_t)b->n); SHA1_Update(&c, r.p, r.len); n++; if (r.rc) fails++; } while (0)
    for (uint32_t i = 0; i < (c19_battery_skip_resettable ? 16u : 24u); i++) { t12_begin(b, T12_TAG0, T12_ORD_PcrRead); b_u32(b, i); BAT(); }
    static const uint32_t caps[][2] = {{4, 0x108}, {4, 0x109}, {5, 0x101}, {5, 0x103}, {5, 0x104}, {5, 0x107}, {5, 0x10C}, {5, 0x10F}, {5, 0x110},
                                       {5, 0x111}, {5, 0x114}, {5, 0x117}, {5, 0x122}, {5, 0x123}, {5, 0x124}, {0x1A, 0}, {0xD, 0}, {0x19, 0}};
    for (size_t k = 0; k < sizeof caps / sizeof caps[0]; k++) {
        t12_begin(b, T12_TAG0, T12_ORD_GetCapability); b_u32(b, caps[k][0]);
        if (caps[k][0] == 4 || caps[k][0] == 5) { b_u32(b, 4); b_u32(b, caps[k][1]); } else b_u32(b, 0);
        BAT();
    }
    for (uint32_t i = 0; i < 4; i++) {                         /* NV public data and contents */
        t12_begin(b, T12_TAG0, T12_ORD_GetCapability); b_u32(b, 0x11); b_u32(b, 4); b_u32(b, 0x00011200u + i); BAT();
        t12_begin(b, T12_TAG0, T12_ORD_NV_ReadValue); b_u32(b, 0x00011200u + i); b_u32(b, 0); b_u32(b, 8); BAT();
    }
    for (uint32_t i = 0; i < 4; i++) { t12_begin(b, T12_TAG0, T12_ORD_ReadCounter); b_u32(b, i); BAT(); }
    for (uint32_t rt = 1; rt <= 6; rt++) {                     /* handle lists: keys, auth sessions, transport sessions, ..., counters */
        if (rt == 3 || rt == 5) continue;
        t12_begin(b, T12_TAG0, T12_ORD_GetCapability); b_u32(b, 0x14); b_u32(b, 4); b_u32(b, rt); BAT();
    }
    t12_begin(b, T12_TAG0, T12_ORD_GetCapability); b_u32(b, 0x07); b_u32(b, 0); BAT();                   /* TPM_CAP_KEY_HANDLE */
#undef BAT
    uint8_t md[20]; SHA1_Final(md, &c);
    tr_begin("battery phase=%s n=%d errors=%d", phase, n, fails); trhex("sha", md, 20); tr_end();
}
static const enum TPMLIB_StateType c19_ty[3] = {TPMLIB_STATE_PERMANENT, TPMLIB_STATE_VOLATILE, TPMLIB_STATE_SAVE_STATE};
static const char *c19_tyname[3] = {"perm", "vol", "save"};
/* suspend/resume through the three blobs; compares the blobs re-read after the resume with the ones set */
static int c19_suspend_resume(Buf *b) {
    unsigned char *blob[3] = {0}, *after[3] = {0}; uint32_t len[3] = {0}, alen[3] = {0}; TPM_RESULT g[3], sres[3], ar[3], mi;
    c19_battery(b, "before");
    for (int k = 0; k < 3; k++) g[k] = TPMLIB_GetState(c19_ty[k], &blob[k], &len[k]);
    TPMLIB_Terminate();
    int with_storage = chance(50);
    if (!with_storage) for (int k = 0; k < 3; k++) blob_clear(&g_store[k]);        /* the blobs alone must carry the state */
    for (int k = 0; k < 3; k++) sres[k] = g[k] == TPM_SUCCESS ? TPMLIB_SetState(c19_ty[k], blob[k], len[k]) : 0xFFFF;
    if (iso_before("MainInit-after-SetState", 23)) { for (int k = 0; k < 3; k++) free(blob[k]); return 0; }
    mi = TPMLIB_MainInit(); iso_after();
    int eq[3] = {0, 0, 0};
    if (mi == TPM_SUCCESS) for (int k = 0; k < 3; k++) {
        ar[k] = TPMLIB_GetState(c19_ty[k], &after[k], &alen[k]);
        eq[k] = ar[k] == TPM_SUCCESS && g[k] == TPM_SUCCESS && alen[k] == len[k] && !memcmp(after[k], blob[k], len[k]);
    }
    tr("resume get=%u/%u/%u set=%u/%u/%u maininit=%u storage=%d eqperm=%d eqvol=%d eqsave=%d lens=%u/%u/%u", g[0], g[1], g[2], sres[0], sres[1], sres[2], mi,
       with_storage, eq[0], eq[1], eq[2], len[0], len[1], len[2]);
    /* the blobs RE-TAKEN after the resume must be accepted as well (second resume from them) */
    if (mi == TPM_SUCCESS && ar[0] == TPM_SUCCESS && ar[1] == TPM_SUCCESS && ar[2] == TPM_SUCCESS && chance(25)) {
        TPM_RESULT s2[3], mi2 = 0xFFFF;
        TPMLIB_Terminate();
        for (int k = 0; k < 3; k++) s2[k] = TPMLIB_SetState(c19_ty[k], after[k], alen[k]);
        if (!iso_before("MainInit-after-second-SetState", 30)) { mi2 = TPMLIB_MainInit(); iso_after(); }
        tr("resume get=0/0/0 set=%u/%u/%u maininit=%u storage=%d eqperm=1 eqvol=1 eqsave=1 lens=%u/%u/%u second=1", s2[0], s2[1], s2[2], mi2, with_storage, alen[0], alen[1], alen[2]);
        mi = mi2;
    }
    for (int k = 0; k < 3; k++) { free(blob[k]); free(after[k]); }
    if (mi != TPM_SUCCESS) return 0;
    c19_battery(b, "after");
    char live[48], stored[48]; c19_live_perm(live); c19_stored_perm(stored);
    tr("sync live=%s stored=%s", live, stored);
    return 1;
}
/* power cut: Terminate, MainInit from what the store callback holds */
static int c19_powercut(Buf *b) {
    c19_battery(b, "precut");
    TPMLIB_Terminate();
    blob_clear(&g_store[ST_VOL]);
    if (iso_before("MainInit-after-powercut", 23)) return 0;
    TPM_RESULT mi = TPMLIB_MainInit(); iso_after();
    tr("restart ret=%u", mi);
    if (mi != TPM_SUCCESS) return 0;
    t12_begin(b, T12_TAG0, T12_ORD_Startup); b_u16(b, 1); c19_cmd(b, "startup");
    char live[48], stored[48]; c19_live_perm(live); c19_stored_perm(stored);
    tr("sync live=%s stored=%s", live, stored);
    return 1;
}
/* TPM_SaveState, power cycle, TPM_Startup(ST_STATE): the saved state must be accepted and the resumed TPM must answer the
 * battery (without the resettable PCRs) as before */
static int c19_savestate_restart(Buf *b) {
    c19_battery_skip_resettable = 1; c19_battery(b, "sbefore"); c19_battery_skip_resettable = 0;
    t12_begin(b, T12_TAG0, T12_ORD_SaveState); Rsp r = c19_cmd(b, "savestate");
    if (r.rc != 0) return 1;
    TPMLIB_Terminate();
    blob_clear(&g_store[ST_VOL]);
    if (iso_before("MainInit-after-savestate", 24)) return 0;
    TPM_RESULT mi = TPMLIB_MainInit(); iso_after();
    tr("restart ret=%u", mi);
    if (mi != TPM_SUCCESS) return 0;
    if (getenv("VERIF_DEBUG_STSTATE")) { int fd = open(getenv("VERIF_DEBUG_STSTATE"), O_WRONLY | O_CREAT | O_APPEND, 0600); TPMLIB_SetDebugFD(fd); TPMLIB_SetDebugLevel(10); }
    t12_begin(b, T12_TAG0, T12_ORD_Startup); b_u16(b, 2); r = c19_cmd(b, "startup-state");
    if (getenv("VERIF_DEBUG_STSTATE")) TPMLIB_SetDebugLevel(0);
    tr("ststate rc=%u", r.rc);
    { char live[48], stored[48]; c19_live_perm(live); c19_stored_perm(stored); tr("sync live=%s stored=%s", live, stored); }
    if (r.rc != 0) {                                            /* refused saved state: the TPM is in its failed state; start over from storage */
        TPMLIB_Terminate(); mi = TPMLIB_MainInit(); tr("restart ret=%u", mi);
        if (mi != TPM_SUCCESS) return 0;
        t12_begin(b, T12_TAG0, T12_ORD_Startup); b_u16(b, 1); c19_cmd(b, "startup");
        char live[48], stored[48]; c19_live_perm(live); c19_stored_perm(stored); tr("sync live=%s stored=%s", live, stored);
        return 1;
    }
    c19_battery_skip_resettable = 1; c19_battery(b, "safter"); c19_battery_skip_resettable = 0;
    return 1;
}
/* an owner (EK + SRK: two RSA key generations), a counter pair, transport sessions */
static int c19_owner; static uint32_t c19_counters[6]; static int c19_ncounters;
static void c19_install_owner(Buf *b) {
    static const uint8_t own[20] = {9, 8, 7, 6, 5, 4, 3, 2, 1, 0, 9, 8, 7, 6, 5, 4, 3, 2, 1, 0}, srk[20] = {0};
    t12c_run = c19_cmd; memset(&g12c, 0, sizeof g12c);
    if (t12c_create_ek(b) != 0) return;
    if (t12c_take_ownership(b, own, srk) != 0) return;
    c19_owner = 1;
}
/* holes in the handle tables: open several sessions / objects, remove an EARLIER one, then suspend or save the state at once */
static int c19_holes(Buf *b) {
    static const uint8_t cauth[20] = {0xC0, 1, 2, 3, 4, 5, 6, 7, 8, 9, 10, 11, 12, 13, 14, 15, 16, 17, 18, 19};
    T12cSess s[3]; int n = 0;
    t12c_run = c19_cmd;
    for (int i = 0; i < 3; i++) {                               /* TPM_MIN_AUTH_SESSIONS = 3 */
        uint32_t rc;
        if (c19_owner && chance(40)) rc = t12c_osap(b, &s[n], T12C_ET_OWNER, T12C_KH_OWNER, g12c.ownerAuth);
        else if (chance(30)) { uint8_t z[20] = {0}; rc = t12c_osap(b, &s[n], T12C_ET_NV, 0x00011200u, z); }
        else { rc = t12c_oiap(b, &s[n]); if (rc == 0 && c19_owner) memcpy(s[n].secret, g12c.ownerAuth, 20); }
        if (rc == 0) n++;
    }
    if (n >= 2) {
        int victim = rnd(n - 1);                                /* never the last one: a hole, not a shorter table */
        switch (rnd(c19_owner ? 3 : 2)) {
        case 0: t12c_flush_specific(b, s[victim].handle, 2); break;          /* TPM_RT_AUTH */
        case 1: t12c_terminate_handle(b, s[victim].handle); break;
        default:                                                /* an owner-authorized command with continueAuthSession = FALSE */
            t12_begin(b, T12_TAG1, T12_ORD_NV_ReadValue); b_u32(b, 0x10000001u); b_u32(b, 0); b_u32(b, 20);
            t12c_finish1(b, "nvread-dir-owner", 0, 0, &s[victim], NULL, 0, 0, 0, NULL, NULL); break;
        }
        tr("holes kind=auth open=%d victim=%d", n, victim);
    }
    if (c19_owner) {
        if (chance(50)) {                                       /* transport sessions: TPM_MIN_TRANS_SESSIONS = 3 */
            T12cSess t[3]; int nt = 0;
            for (int i = 0; i < 3; i++) if (t12c_establish_transport_attr(b, &t[nt], chance(70) ? 0 : T12C_TRANSPORT_LOG) == 0) nt++;
            if (nt >= 2) { int v = rnd(nt - 1); t12c_flush_specific(b, t[v].handle, 4); tr("holes kind=trans open=%d victim=%d", nt, v); }
        }
        if (chance(50) && c19_ncounters < 2) {                  /* counters: create two, release the first */
            uint32_t v = 0, id = 0;
            if (t12c_counter_create(b, cauth, (const uint8_t *)"cnt0", &id, &v, 0, NULL) == 0) c19_counters[c19_ncounters++] = id;
            if (t12c_counter_create(b, cauth, (const uint8_t *)"cnt1", &id, &v, 0, NULL) == 0) c19_counters[c19_ncounters++] = id;
            if (c19_ncounters >= 2) {
                if (chance(50)) t12c_counter_release_owner(b, NULL, c19_counters[0], 0, NULL); else t12c_counter_release(b, NULL, c19_counters[0], cauth, 0, NULL);
                tr("holes kind=counter n=%d", c19_ncounters);
                memmove(c19_counters, c19_counters + 1, sizeof c19_counters[0] * (size_t)(--c19_ncounters));
            }
        }
    }
    int ok = chance(55) ? c19_suspend_resume(b) : c19_savestate_restart(b);
    if (!ok) return 0;
    /* the survivors are still usable, the removed one is not: closing them all must answer the same way as it would have */
    for (int i = 0; i < n; i++) t12c_terminate_handle(b, s[i].handle);
    return 1;
}
/* blob mutations through SetState: every mutant must be rejected or accepted without a memory error; afterwards a
 * normal MainInit from storage must still work and give the same battery */
static int c19_mutations(Buf *b, int nmut) {
    unsigned char *blob[3] = {0}; uint32_t len[3] = {0};
    c19_battery(b, "premut");
    for (int k = 0; k < 3; k++) if (TPMLIB_GetState(c19_ty[k], &blob[k], &len[k]) != TPM_SUCCESS) { tr("mutskip"); for (int j = 0; j <= k; j++) free(blob[j]); return 1; }
    TPMLIB_Terminate();
    for (int m = 0; m < nmut; m++) {
        int k = rnd(3); uint32_t n = len[k]; if (!n) continue;
        uint8_t *mu = malloc(n + 64); memcpy(mu, blob[k], n); const char *kind; uint32_t pos = 0, mlen = n;
        switch (rnd(6)) {
        case 0: kind = "trunc"; mlen = rnd(n); break;
        case 1: kind = "flip"; pos = rnd(n); mu[pos] ^= (uint8_t)(1u << rnd(8)); break;
        case 2: kind = "byte"; pos = rnd(n); mu[pos] = (uint8_t)rnd64(); break;
        case 3: kind = "ff32"; pos = n >= 4 ? rnd(n - 3) : 0; for (uint32_t j = pos; j < pos + 4 && j < n; j++) mu[j] = 0xff; break;
        case 4: kind = "extend"; for (int j = 0; j < 64; j++) mu[n + j] = (uint8_t)rnd64(); mlen = n + 1 + rnd(63); break;
        default: kind = "headflip"; pos = rnd(n < 40 ? n : 40); mu[pos] ^= (uint8_t)(1u << rnd(8)); break;
        }
        uint8_t *exact = malloc(mlen ? mlen : 1); memcpy(exact, mu, mlen); free(mu);      /* exact-size copy: ASan sees over-reads */
        TPM_RESULT pre = TPM_SUCCESS;
        if (k != 0 && chance(70)) pre = TPMLIB_SetState(TPMLIB_STATE_PERMANENT, blob[0], len[0]);   /* else the permanent state comes from storage */
        char lab[64]; snprintf(lab, sizeof lab, "SetState-%s-%s-%u-%u", c19_tyname[k], kind, pos, mlen);
        if (iso_before(lab, strlen(lab))) { free(exact); continue; }
        TPM_RESULT sr = TPMLIB_SetState(c19_ty[k], exact, mlen); iso_after();
        int same = mlen == n && !memcmp(exact, blob[k], n);
        free(exact);
        TPM_RESULT mi = 0xFFFF;
        if (sr == TPM_SUCCESS && !same) {           /* accepted mutant: the TPM must come up (or refuse) without a memory error */
            snprintf(lab, sizeof lab, "MainInit-mutant-%s-%s-%u-%u", c19_tyname[k], kind, pos, mlen);
            if (!iso_before(lab, strlen(lab))) {
                Blob keep[3] = {{0}}; for (int j = 0; j < 3; j++) if (g_store[j].present) blob_set(&keep[j], g_store[j].p, g_store[j].n);
                mi = TPMLIB_MainInit(); iso_after();
                if (mi == TPM_SUCCESS) { t12_begin(b, T12_TAG0, T12_ORD_Startup); b_u16(b, 1); b_put32(b, 2, (uint32_t)b->n); run_raw(b->p, (uint32_t)b->n);
                                         for (uint32_t i = 0; i < 24; i += 5) { t12_begin(b, T12_TAG0, T12_ORD_PcrRead); b_u32(b, i); b_put32(b, 2, (uint32_t)b->n); run_raw(b->p, (uint32_t)b->n); } }
                TPMLIB_Terminate();
                for (int j = 0; j < 3; j++) { if (keep[j].present) blob_set(&g_store[j], keep[j].p, keep[j].n); else blob_clear(&g_store[j]); blob_clear(&keep[j]); }
            }
        }
        tr("mut type=%s kind=%s pos=%u len=%u of=%u pre=%u ret=%u same=%d maininit=%u", c19_tyname[k], kind, pos, mlen, n, pre, sr, same, mi);
        for (int j = 0; j < 3; j++) TPMLIB_SetState(c19_ty[j], NULL, 0);       /* drop whatever is cached */
    }
    /* the original blobs must still be accepted and a normal start must work */
    TPM_RESULT sres[3];
    for (int k = 0; k < 3; k++) sres[k] = TPMLIB_SetState(c19_ty[k], blob[k], len[k]);
    for (int k = 0; k < 3; k++) free(blob[k]);
    if (iso_before("MainInit-after-mutations", 24)) return 0;
    TPM_RESULT mi = TPMLIB_MainInit(); iso_after();
    tr("aftermut set=%u/%u/%u maininit=%u", sres[0], sres[1], sres[2], mi);
    if (mi != TPM_SUCCESS) return 0;
    c19_battery(b, "postmut");
    char live[48], stored[48]; c19_live_perm(live); c19_stored_perm(stored);
    tr("sync live=%s stored=%s", live, stored);
    return 1;
}
/* scripted blob witnesses on a TPM without NV indices: the permanent blob then ends with
 * [TPM_TAG_NVSTATE_NV_V2 = 00 02][nvIndexCount = 00 00 00 00][20-byte integrity digest]; overwrite the count.
 * 0xFFFFFFFF: the array allocation is refused but the count stays; 0x02000001: count * sizeof(entry) wraps to 128 in 32 bits */
static int c19_scripted_nvcount(void) {
    unsigned char *pb = NULL; uint32_t pl = 0;
    if (TPMLIB_GetState(TPMLIB_STATE_PERMANENT, &pb, &pl) != TPM_SUCCESS) return 1;
    TPMLIB_Terminate();
    static const uint32_t counts[] = {0xFFFFFFFFu, 0x02000001u, 0x00000400u, 0x00000401u};
    if (pl > 30 && pb[pl - 26] == 0 && pb[pl - 25] == 2 && g32(pb + pl - 24) == 0) {
        for (size_t k = 0; k < sizeof counts / sizeof counts[0]; k++) {
            uint8_t *mu = malloc(pl); memcpy(mu, pb, pl);
            mu[pl - 24] = counts[k] >> 24; mu[pl - 23] = counts[k] >> 16; mu[pl - 22] = counts[k] >> 8; mu[pl - 21] = counts[k];
            char lab[64]; snprintf(lab, sizeof lab, "SetState-perm-nvcount-%08x", counts[k]);
            if (!iso_before(lab, strlen(lab))) {
                TPM_RESULT sr = TPMLIB_SetState(TPMLIB_STATE_PERMANENT, mu, pl); iso_after();
                tr("mut type=perm kind=nvcount pos=%u len=%u of=%u pre=0 ret=%u same=0 maininit=65535", pl - 24, pl, pl, sr);
            }
            free(mu);
            for (int j = 0; j < 3; j++) TPMLIB_SetState(c19_ty[j], NULL, 0);
        }
    }
    free(pb);
    if (iso_before("MainInit-after-nvcount", 22)) return 0;
    TPM_RESULT mi = TPMLIB_MainInit(); iso_after();
    tr("aftermut set=0/0/0 maininit=%u", mi);
    return mi == TPM_SUCCESS;
}
/* a state-changing or read-only command chosen at random */
static void c19_random_cmd(Buf *b) {
    uint8_t d[64];
    for (int i = 0; i < 64; i++) d[i] = (uint8_t)rnd64();
    switch (rnd(22)) {
    case 0: case 1: t12_begin(b, T12_TAG0, T12_ORD_Extend); b_u32(b, chance(90) ? rnd(24) : 24 + rnd(4)); b_bytes(b, d, 20); c19_cmd(b, "extend"); break;
    case 2: t12_begin(b, T12_TAG0, T12_ORD_PcrRead); b_u32(b, rnd(25)); c19_cmd(b, "pcrread"); break;
    case 3: case 4: case 5: {   /* NV define: new, redefinition, deletion (size 0), refused attributes, too large */
        uint32_t idx = 0x00011200u + rnd(4);
        /* no READ_STCLEAR / WRITE_STCLEAR areas: their bReadSTClear/bWriteSTClear flags are volatile by specification but are
           serialized into the permanent blob, which would make "live blob = stored blob" fail for a reason the property does not mean */
        uint32_t at = (uint32_t[]){0x10001, 0x10001, 0x1, 0x2001, 0x8001, 0x0, 0x6, 0x60000, 0x20001, 0x40001}[rnd(10)];
        uint32_t sz = (uint32_t[]){8, 16, 40, 0, 0, 300, 0x7000, 0x10000}[rnd(8)];
        t12_begin(b, T12_TAG0, T12_ORD_NV_DefineSpace); t12_nv_public(b, idx, at, sz); b_fill(b, 20, 1); c19_cmd(b, "nvdefine"); break; }
    case 6: case 7: case 8: { uint32_t n = 1 + rnd(16); t12_begin(b, T12_TAG0, T12_ORD_NV_WriteValue); b_u32(b, 0x00011200u + rnd(4)); b_u32(b, rnd(8)); b_u32(b, n); b_bytes(b, d, n); c19_cmd(b, "nvwrite"); break; }
    case 9: t12_begin(b, T12_TAG0, T12_ORD_NV_ReadValue); b_u32(b, 0x00011200u + rnd(4)); b_u32(b, rnd(8)); b_u32(b, 1 + rnd(23)); c19_cmd(b, "nvread"); break;   /* never size 0: that sets the volatile bReadSTClear, which is serialized into the permanent blob */
    case 10: t12_begin(b, T12_TAG0, T12_TSC_PhysicalPresence); b_u16(b, (uint16_t[]){0x20, 0x08, 0x10, 0x08}[rnd(4)]); c19_cmd(b, "tscpp"); break;
    case 11: t12_begin(b, T12_TAG0, T12_ORD_SetOwnerInstall); b_u8(b, rnd(2)); c19_cmd(b, "setownerinstall"); break;
    case 12: t12_begin(b, T12_TAG0, T12_ORD_OIAP); c19_cmd(b, "oiap"); break;
    case 13: t12_begin(b, T12_TAG0, T12_ORD_SHA1Start); c19_cmd(b, "sha1start"); break;
    case 14: t12_begin(b, T12_TAG0, T12_ORD_SaveState); c19_cmd(b, "savestate"); break;
    case 15: { uint8_t sel[3] = {0, 0, (uint8_t)(1u << rnd(8))}; t12_begin(b, T12_TAG0, T12_ORD_PCR_Reset); b_u16(b, 3); b_bytes(b, sel, 3); c19_cmd(b, "pcrreset"); break; }
    case 16: t12_begin(b, T12_TAG0, T12_ORD_GetCapability); b_u32(b, 5); b_u32(b, 4); b_u32(b, 0x100 + rnd(0x25)); c19_cmd(b, "getcap"); break;
    case 17: t12_begin(b, T12_TAG0, T12_ORD_SetCapability); b_u32(b, 1 + rnd(3)); b_u32(b, 4); b_u32(b, 1 + rnd(10)); b_u32(b, 1); b_u8(b, rnd(2)); c19_cmd(b, "setcap"); break;
    case 18: t12_begin(b, T12_TAG0, T12_ORD_PhysicalSetDeactivated); b_u8(b, 0); c19_cmd(b, "setdeactivated0"); break;
    case 19: t12_begin(b, T12_TAG0, T12_ORD_StirRandom); b_u32(b, 16); b_bytes(b, d, 16); c19_cmd(b, "stirrandom"); break;
    case 20: t12_begin(b, T12_TAG0, T12_TSC_ResetEstablishmentBit); c19_cmd(b, "resetestablishment"); break;
    default: t12_begin(b, T12_TAG1, T12_ORD_NV_WriteValue); b_u32(b, 0x00011200u); b_u32(b, 0); b_u32(b, 4); b_bytes(b, d, 4); c18_trailer(b); c19_cmd(b, "nvwrite-badauth"); break;
    }
}
static void c19_history(int h, void *arg) {
    int nops = *(int *)arg;
    Buf b = {0};
    g12_nsess = 0;
    /* (4) storage faults during the very first MainInit of a TPM */
    tpm12_choose(); storage_reset(); g_locality = 0; g_pp = 0;
    if (h % 4 == 3) {
        int which = rnd(3);
        if (which == 0) { g_store_fail_at = 0; } else if (which == 1) { g_load_fail_at = rnd(2); g_load_fail_mode = 1; } else { g_nvinit_fail_at = 0; }
        long ff0 = g_fault_fired;
        if (!iso_before("MainInit-first-with-fault", 25)) {
            TPM_RESULT mi = TPMLIB_MainInit(); iso_after();
            tr("firstinit fault=%s fired=%ld ret=%u stored=%d", which == 0 ? "store" : which == 1 ? "load" : "nvinit", g_fault_fired - ff0, mi, g_store[ST_PERM].present);
            TPMLIB_Terminate();
        }
        faults_clear(); storage_reset();
    }
    TPM_RESULT mi = TPMLIB_MainInit();
    if (mi != TPM_SUCCESS) die("tpm12 maininit %u", mi);
    { char live[48], stored[48]; c19_live_perm(live); c19_stored_perm(stored); tr("fresh live=%s stored=%s", live, stored); }
    if (h % 4 == 0 && !c19_scripted_nvcount()) { b_free(&b); return; }
    t12_begin(&b, T12_TAG0, T12_ORD_Startup); b_u16(&b, 1); c19_cmd(&b, "startup");
    t12_begin(&b, T12_TAG0, T12_TSC_PhysicalPresence); b_u16(&b, 0x20); c19_cmd(&b, "tscpp");
    t12_begin(&b, T12_TAG0, T12_TSC_PhysicalPresence); b_u16(&b, 0x08); c19_cmd(&b, "tscpp");
    t12_begin(&b, T12_TAG0, T12_ORD_NV_DefineSpace); t12_nv_public(&b, 0x00011200u, 0x10001, 24); b_fill(&b, 20, 1); c19_cmd(&b, "nvdefine");
    c19_owner = 0; c19_ncounters = 0;
    if (h % 10 == 2 || h % 10 == 7) c19_install_owner(&b);      /* two RSA key generations */
    for (int i = 0; i < nops; i++) {
        int k = rnd(100);
        if (k < 4) { if (!c19_holes(&b)) break; }
        else if (k < 78) c19_random_cmd(&b);
        else if (k < 84) { if (!c19_suspend_resume(&b)) break; }
        else if (k < 88) { if (!c19_powercut(&b)) break; }
        else if (k < 92) { if (!c19_mutations(&b, 25)) break; }
        else {
            /* (4) a store (or rollback load) fault at the k-th callback from now on */
            int kk = rnd(3);
            if (chance(75)) { g_store_fail_at = g_store_calls + kk; tr("arm fault=store at=+%d", kk); }
            else { g_load_fail_at = g_load_calls + kk; g_load_fail_mode = 1; tr("arm fault=load at=+%d", kk); }
            for (int j = 0; j < 8; j++) c19_random_cmd(&b);
            faults_clear(); tr("disarm");
            /* the TPM may now be in its failed state: a restart from the stored blob must work */
            if (!c19_powercut(&b)) break;
        }
    }
    b_free(&b);
}
/* one history in five is an NV history of the C20 scenario, judged by C20's model: refused ordinals that had already changed the
   permanent state make the TPM reload it from storage (rollback), and what is not in that blob — the per-area volatile lock
   flags — has to be carried across the reload */
static void c19_borrow(int h, void *arg) {
    (void)arg; tr("borrow prop=C20");
    int hh = 2 + 12 * ((h / 5) % 5), maxops = 150;
    g_c20_tis_drill = 1; c20_history(hh, &maxops); g_c20_tis_drill = 0;
}
static void scen_c19(int histories, int nops) {
    for (int h = 0; h < histories; h++) iso_run(h, rnd64(), h % 5 == 4 ? c19_borrow : c19_history, &nops, 300);
}

/* =====================================================  replay  ===================================================== */
/* `tpmdrv R12 0 quick <out> <replay file>`: re-executes the `fresh` / `cmd req=` / `restart` lines of a C18-style
 * history on the current tree and writes the answers in the same format.  VERIF_DEBUG_FROM=<n> switches the
 * library's debug output (stderr) on from the n-th command. */
static void scen_replay12(const char *path) {
    FILE *f = fopen(path, "r"); if (!f) die("cannot open %s", path);
    size_t cap = 1 << 16; char *line = malloc(cap); long k = 0;
    long dbg = getenv("VERIF_DEBUG_FROM") ? atol(getenv("VERIF_DEBUG_FROM")) : -1;
    int live = 0;
    while (getline(&line, &cap, f) > 0) {
        if (!strncmp(line, "fresh", 5)) {
            tpm12_fresh(); live = 1;
            char *m = strstr(line, "maxbuf="); if (m) TPMLIB_SetBufferSize((uint32_t)atol(m + 7), NULL, NULL);
            tr("fresh maxbuf=%u", tpm12_maxbuf());
        } else if (!strncmp(line, "restart", 7) && live) {
            TPMLIB_Terminate(); tr("restart ret=%u", TPMLIB_MainInit());
        } else if (!strncmp(line, "resume", 6) && live) {        /* suspend/resume through the three state blobs */
            unsigned char *blob[3] = {0}; uint32_t len[3] = {0}; TPM_RESULT ret = 0;
            for (int k = 0; k < 3; k++) ret |= TPMLIB_GetState(c19_ty[k], &blob[k], &len[k]);
            TPMLIB_Terminate();
            for (int k = 0; k < 3; k++) ret |= TPMLIB_SetState(c19_ty[k], blob[k], len[k]);
            ret |= TPMLIB_MainInit();
            for (int k = 0; k < 3; k++) free(blob[k]);
            tr("resume ret=%u", ret);
        } else if (!strncmp(line, "cmd ", 4) && live) {
            char *q = strstr(line, " req="), *l = strstr(line, " loc=");
            if (!q) continue;
            q += 5; if (l) g_locality = atoi(l + 5);
            size_t n = 0; uint8_t *buf = malloc(strlen(q) / 2 + 1);
            if (*q != '-') while (isxdigit((unsigned char)q[0]) && isxdigit((unsigned char)q[1])) { unsigned v; sscanf(q, "%2x", &v); buf[n++] = (uint8_t)v; q += 2; }
            if (k == dbg) { TPMLIB_SetDebugFD(2); TPMLIB_SetDebugLevel(10); }
            uint32_t mb = tpm12_maxbuf();
            Rsp r = run_raw(buf, (uint32_t)n);
            tr_begin("cmd ret=%u loc=%d maxbuf=%u bufsize=%u len=%u", r.ret, g_locality, mb, r.bufsize, r.len);
            trhex("req", buf, n); trhex("rsp", r.p, r.ret == 0 ? r.len : 0); tr_end();
            free(buf); k++;
        }
    }
    free(line); fclose(f);
}

#endif
