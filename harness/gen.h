/* gen.h: a client-side "world" and a random generator of state-building TPM 2 commands, shared by the
 * history-quantified properties (C01 C02 C03 C05 C06 C07 C12).  Also: fingerprint batteries and
 * permanent-blob comparison modulo the ORDERLY_DATA block.                                             */
#ifndef VERIF_GEN_H
#define VERIF_GEN_H

#define W_MAXNV 12
#define W_MAXOBJ 8
#define W_MAXSESS 6
#define W_MAXSEQ 3
#define W_MAXCTX 6
typedef struct { uint32_t idx; uint32_t attrs; uint16_t size; char auth[8]; int type; /*0 ord 1 counter 2 bits 4 extend*/ int written; } WNv;
typedef struct { uint32_t h; int kind; /*0 ecc sign 1 keyedhash 2 symcipher 3 ecc storage*/ int hier; uint32_t persistent; } WObj;
typedef struct { uint32_t h; int policy; } WSess;
typedef struct { uint32_t h; int event; } WSeq;
typedef struct { uint8_t *p; uint32_t n; } WCtx;
typedef struct {
    char ownerAuth[8], endorseAuth[8], lockoutAuth[8], platformAuth[8];
    WNv nv[W_MAXNV]; int nnv; uint32_t nv_gone;   /* nv_gone: pool slots of indices that were deleted in this history */
    WObj obj[W_MAXOBJ]; int nobj;
    uint32_t pers[6]; int npers;
    WSess sess[W_MAXSESS]; int nsess;
    WSeq seq[W_MAXSEQ]; int nseq;
    WCtx ctx[W_MAXCTX]; int nctx;
    int started;
    int dis[2];                 /* owner / endorsement hierarchy disabled by HierarchyControl */
    long ops, ok;
    uint32_t last_cc; uint32_t last_rc; long last_stores;
} World;

static void w_reset(World *w) {
    for (int i = 0; i < w->nctx; i++) free(w->ctx[i].p);
    memset(w, 0, sizeof *w);
}
/* volatile part of the client view is lost at a TPM Reset */
static void w_on_reset(World *w) {
    w->nobj = 0; w->nsess = 0; w->nseq = 0;
    for (int i = 0; i < w->nctx; i++) free(w->ctx[i].p);
    w->nctx = 0; w->platformAuth[0] = 0; w->dis[0] = w->dis[1] = 0;
}
static Rsp w_run(World *w, Buf *b) {
    uint32_t cc = b->n >= 10 ? g32(b->p + 6) : 0;
    Rsp r = run(b);
    w->ops++; if (r.rc == 0) w->ok++;
    w->last_cc = cc; w->last_rc = r.rc; w->last_stores = g_store_in_cmd;
    return r;
}
static const char *w_hauth(World *w, uint32_t h) {
    switch (h) { case RH_OWNER: return w->ownerAuth; case RH_ENDORSEMENT: return w->endorseAuth; case RH_LOCKOUT: return w->lockoutAuth; case RH_PLATFORM: return w->platformAuth; default: return ""; }
}
static void auth_pw_s(Buf *b, const char *pw) { auth_pw(b, pw, strlen(pw)); }

/* ---- templates ---- */
static void tmpl_ecc_sign(Buf *t, int restricted_storage, const uint8_t *uniq, int nuniq) {
    /* TPMT_PUBLIC: type ECC, nameAlg SHA256, attrs, authPolicy, parms, unique */
    b_reset(t); b_u16(t, ALG_ECC); b_u16(t, ALG_SHA256);
    uint32_t attrs = restricted_storage ? 0x00030472u /* fixedTPM|fixedParent|sensitiveDataOrigin|userWithAuth|noDA|restricted|decrypt */
                                        : 0x00040472u /* ... sign */;
    b_u32(t, attrs); b_u16(t, 0);
    if (restricted_storage) { b_u16(t, ALG_AES); b_u16(t, 128); b_u16(t, ALG_CFB); b_u16(t, ALG_NULL); }
    else { b_u16(t, ALG_NULL); b_u16(t, ALG_ECDSA); b_u16(t, ALG_SHA256); }
    b_u16(t, 0x0003 /* NIST P256 */); b_u16(t, ALG_NULL);
    b_2b(t, uniq, nuniq); b_2b(t, uniq, 0);
}
static void tmpl_keyedhash(Buf *t, const uint8_t *uniq, int nuniq) {
    b_reset(t); b_u16(t, ALG_KEYEDHASH); b_u16(t, ALG_SHA256);
    b_u32(t, 0x00040472u); b_u16(t, 0);
    b_u16(t, ALG_HMAC); b_u16(t, ALG_SHA256);
    b_2b(t, uniq, nuniq);
}
static void tmpl_symcipher(Buf *t, const uint8_t *uniq, int nuniq) {
    b_reset(t); b_u16(t, ALG_SYMCIPHER); b_u16(t, ALG_SHA256);
    b_u32(t, 0x00060472u /* sign|decrypt */); b_u16(t, 0);
    b_u16(t, ALG_AES); b_u16(t, 128); b_u16(t, ALG_CFB);
    b_2b(t, uniq, nuniq);
}
static void tmpl_cmac(Buf *t, const uint8_t *uniq, int nuniq) {
    b_reset(t); b_u16(t, ALG_SYMCIPHER); b_u16(t, ALG_SHA256);
    b_u32(t, 0x00040472u /* sign */); b_u16(t, 0);
    b_u16(t, ALG_AES); b_u16(t, 128); b_u16(t, 0x003F /* CMAC */);
    b_2b(t, uniq, nuniq);
}
static Rsp w_create_primary(World *w, Buf *b, uint32_t hier, int kind, const uint8_t *uniq, int nuniq, const char *keyauth) {
    Buf t = {0};
    if (kind == 4) tmpl_cmac(&t, uniq, nuniq); else
    if (kind == 0) tmpl_ecc_sign(&t, 0, uniq, nuniq); else if (kind == 3) tmpl_ecc_sign(&t, 1, uniq, nuniq);
    else if (kind == 1) tmpl_keyedhash(&t, uniq, nuniq); else tmpl_symcipher(&t, uniq, nuniq);
    cmd_begin(b, ST_SESSIONS, CC_CreatePrimary); b_u32(b, hier); auth_pw_s(b, w_hauth(w, hier));
    b_u16(b, 4 + (uint16_t)strlen(keyauth)); b_2b(b, keyauth, strlen(keyauth)); b_u16(b, 0);   /* inSensitive */
    b_2b(b, t.p, t.n); b_u16(b, 0); b_u32(b, 0);                                                /* inPublic, outsideInfo, creationPCR */
    b_free(&t);
    return w_run(w, b);
}

/* ---- individual ops; each returns the response ---- */
static uint32_t w_rand_hier(void) { static const uint32_t hs[] = {RH_OWNER, RH_OWNER, RH_ENDORSEMENT, RH_PLATFORM, RH_NULL}; return hs[rnd(5)]; }

static void op_create_primary(World *w, Buf *b) {
    if (w->nobj >= 3) return;
    uint32_t hier = w_rand_hier(); int kind = rnd(5);   /* 4: AES-CMAC key */
    uint8_t uq[4]; for (int i = 0; i < 4; i++) uq[i] = rnd(4);
    Rsp r = w_create_primary(w, b, hier, kind, uq, chance(50) ? 4 : 0, chance(50) ? "k" : "");
    if (r.rc == 0 && r.len >= 14) { WObj *o = &w->obj[w->nobj++]; o->h = g32(r.p + 10); o->kind = kind; o->hier = hier; o->persistent = 0; }
}
static void op_flush_object(World *w, Buf *b) {
    if (!w->nobj) return;
    int i = rnd(w->nobj);
    cmd_begin(b, ST_NO_SESSIONS, CC_FlushContext); b_u32(b, w->obj[i].h); w_run(w, b);
    w->obj[i] = w->obj[--w->nobj];
}
static void op_evict(World *w, Buf *b) {
    if (w->nobj && w->npers < 4 && chance(60)) {
        WObj *o = &w->obj[rnd(w->nobj)];
        if (o->hier != RH_OWNER && o->hier != RH_PLATFORM) return;
        uint32_t ph = (o->hier == RH_PLATFORM ? 0x81800000u : 0x81000000u) + rnd(4);
        cmd_begin(b, ST_SESSIONS, CC_EvictControl); b_u32(b, o->hier == RH_PLATFORM ? RH_PLATFORM : RH_OWNER); b_u32(b, o->h);
        auth_pw_s(b, w_hauth(w, o->hier == RH_PLATFORM ? RH_PLATFORM : RH_OWNER)); b_u32(b, ph);
        Rsp r = w_run(w, b);
        if (r.rc == 0) w->pers[w->npers++] = ph;
    } else if (w->npers) {
        int i = rnd(w->npers); uint32_t ph = w->pers[i];
        uint32_t auth = (ph >= 0x81800000u) ? RH_PLATFORM : RH_OWNER;
        cmd_begin(b, ST_SESSIONS, CC_EvictControl); b_u32(b, auth); b_u32(b, ph); auth_pw_s(b, w_hauth(w, auth)); b_u32(b, ph);
        Rsp r = w_run(w, b);
        if (r.rc == 0) w->pers[i] = w->pers[--w->npers];
    }
}
static void op_start_session(World *w, Buf *b) {
    if (w->nsess >= 3) return;
    uint8_t nonce[16]; for (int i = 0; i < 16; i++) nonce[i] = rnd(256);
    int type = chance(60) ? 0 : (chance(80) ? 1 : 3);
    cmd_begin(b, ST_NO_SESSIONS, CC_StartAuthSession); b_u32(b, RH_NULL); b_u32(b, chance(20) ? RH_OWNER : RH_NULL); b_2b(b, nonce, 16); b_u16(b, 0);
    b_u8(b, type); if (chance(30)) { b_u16(b, ALG_AES); b_u16(b, 128); b_u16(b, ALG_CFB); } else b_u16(b, ALG_NULL); b_u16(b, chance(70) ? ALG_SHA256 : ALG_SHA384);
    Rsp r = w_run(w, b);
    if (r.rc == 0 && r.len >= 14) { w->sess[w->nsess].h = g32(r.p + 10); w->sess[w->nsess].policy = type != 0; w->nsess++; }
}
static void op_flush_session(World *w, Buf *b) {
    if (!w->nsess) return;
    int i = rnd(w->nsess);
    cmd_begin(b, ST_NO_SESSIONS, CC_FlushContext); b_u32(b, w->sess[i].h); w_run(w, b);
    w->sess[i] = w->sess[--w->nsess];
}
static void op_policy(World *w, Buf *b) {
    for (int i = 0; i < w->nsess; i++) if (w->sess[i].policy) {
        switch (rnd(5)) {
        case 0: cmd_begin(b, ST_NO_SESSIONS, CC_PolicyCommandCode); b_u32(b, w->sess[i].h); b_u32(b, CC_NV_Read); break;
        case 1: cmd_begin(b, ST_NO_SESSIONS, CC_PolicyAuthValue); b_u32(b, w->sess[i].h); break;
        case 2: cmd_begin(b, ST_NO_SESSIONS, CC_PolicyPassword); b_u32(b, w->sess[i].h); break;
        case 3: cmd_begin(b, ST_NO_SESSIONS, CC_PolicyPCR); b_u32(b, w->sess[i].h); b_u16(b, 0); b_u32(b, 1); b_u16(b, ALG_SHA256); b_u8(b, 3); b_u8(b, 1 << rnd(8)); b_u8(b, 0); b_u8(b, chance(50) ? 1 : 0); break;
        default: cmd_begin(b, ST_NO_SESSIONS, CC_PolicyGetDigest); b_u32(b, w->sess[i].h); break;
        }
        w_run(w, b); return;
    }
}
static void op_ctx_save(World *w, Buf *b) {
    if (w->nctx >= W_MAXCTX) return;
    uint32_t h = 0; int which = -1, isobj = 0;
    if (w->nsess && chance(60)) { which = rnd(w->nsess); h = w->sess[which].h; }
    else if (w->nobj) { which = rnd(w->nobj); h = w->obj[which].h; isobj = 1; }
    else if (w->nseq) { h = w->seq[rnd(w->nseq)].h; isobj = 2; }
    else return;
    cmd_begin(b, ST_NO_SESSIONS, CC_ContextSave); b_u32(b, h);
    Rsp r = w_run(w, b);
    if (r.rc == 0 && r.len > 10) { WCtx *c = &w->ctx[w->nctx++]; c->n = r.len - 10; c->p = malloc(c->n); memcpy(c->p, r.p + 10, c->n);
        if (isobj == 0) w->sess[which] = w->sess[--w->nsess]; /* a saved session is no longer loaded */ }
}
static void op_ctx_load(World *w, Buf *b) {
    if (!w->nctx) return;
    int i = rnd(w->nctx);
    cmd_begin(b, ST_NO_SESSIONS, CC_ContextLoad); b_bytes(b, w->ctx[i].p, w->ctx[i].n);
    Rsp r = w_run(w, b);
    if (r.rc == 0 && r.len >= 14) {
        uint32_t h = g32(r.p + 10);
        if ((h >> 24) == 0x80) { if (w->nobj < W_MAXOBJ) { w->obj[w->nobj].h = h; w->obj[w->nobj].kind = 9; w->obj[w->nobj].hier = 0; w->nobj++; } }
        else if (w->nsess < W_MAXSESS) { w->sess[w->nsess].h = h; w->sess[w->nsess].policy = (h >> 24) == 3; w->nsess++; }
    }
    free(w->ctx[i].p); w->ctx[i] = w->ctx[--w->nctx];
}
static void op_hash_seq(World *w, Buf *b) {
    if (w->nseq < 2 && w->nobj + w->nseq < 3 && chance(50)) {
        int kind = rnd(4);
        if (kind == 3) { /* MAC_Start with an AES-CMAC key: its sequence state is a cipher state, not a hash state */
            int k = -1; for (int i = 0; i < w->nobj; i++) if (w->obj[i].kind == 4) k = i;
            if (k < 0) return;
            cmd_begin(b, ST_SESSIONS, 0x15B /* MAC_Start */); b_u32(b, w->obj[k].h); auth_pw_s(b, chance(85) ? "k" : ""); b_u16(b, 0); b_u16(b, ALG_NULL);
        } else
        if (kind == 0) { cmd_begin(b, ST_NO_SESSIONS, CC_HashSequenceStart); b_2b(b, "s", chance(50) ? 1 : 0); b_u16(b, chance(50) ? ALG_SHA256 : ALG_SHA1); }
        else if (kind == 1) { cmd_begin(b, ST_NO_SESSIONS, CC_HashSequenceStart); b_u16(b, 0); b_u16(b, ALG_NULL); }   /* event sequence */
        else { /* HMAC_Start needs a keyedhash key */
            int k = -1; for (int i = 0; i < w->nobj; i++) if (w->obj[i].kind == 1) k = i;
            if (k < 0) return;
            cmd_begin(b, ST_SESSIONS, CC_HMAC_Start); b_u32(b, w->obj[k].h); auth_pw_s(b, ""); b_u16(b, 0); b_u16(b, ALG_SHA256);
        }
        Rsp r = w_run(w, b);
        if (r.rc == 0 && r.len >= 14) { w->seq[w->nseq].h = g32(r.p + 10); w->seq[w->nseq].event = kind == 1; w->nseq++; }
    } else if (w->nseq) {
        int i = rnd(w->nseq);
        if (chance(70)) {
            uint8_t d[200]; int n = chance(45) ? 16 * (1 + rnd(8)) : rnd(200);   /* often whole blocks: a sequence may rest exactly on a block boundary */
            for (int k = 0; k < n; k++) d[k] = rnd(256);
            cmd_begin(b, ST_SESSIONS, CC_SequenceUpdate); b_u32(b, w->seq[i].h); auth_pw_s(b, ""); b_2b(b, d, n); w_run(w, b);
        } else {
            if (w->seq[i].event) { cmd_begin(b, ST_SESSIONS, CC_EventSequenceComplete); b_u32(b, 16); b_u32(b, w->seq[i].h); b_u32(b, 9 + 9); b_u32(b, RS_PW); b_u16(b, 0); b_u8(b, 0); b_u16(b, 0); b_u32(b, RS_PW); b_u16(b, 0); b_u8(b, 0); b_u16(b, 0); b_2b(b, "e", 1); }
            else { cmd_begin(b, ST_SESSIONS, CC_SequenceComplete); b_u32(b, w->seq[i].h); auth_pw_s(b, ""); b_2b(b, "z", 1); b_u32(b, RH_NULL); }
            w_run(w, b);
            w->seq[i] = w->seq[--w->nseq];
        }
    }
}
static void op_nv_define(World *w, Buf *b) {
    if (w->nnv >= W_MAXNV) return;
    WNv n; memset(&n, 0, sizeof n);
    n.idx = 0x01400000u + rnd(24); n.type = (int[]){0, 0, 1, 2, 4}[rnd(5)];
    n.size = n.type == 0 ? (uint16_t[]){1, 8, 32, 100, 1024, 1025, 2048}[rnd(7)] : (n.type == 4 ? 32 : 8);
    uint32_t a = (1u << 2) | (1u << 18) | (1u << 1) | (1u << 17);            /* AUTHWRITE AUTHREAD OWNERWRITE OWNERREAD */
    a |= (uint32_t)n.type << 4;
    if (chance(25)) a |= 1u << 25;                                          /* NO_DA */
    if (chance(25)) a |= 1u << 26;                                          /* ORDERLY */
    if (chance(15)) a |= 1u << 27;                                          /* CLEAR_STCLEAR */
    if (chance(20)) a |= 1u << 14;                                          /* WRITE_STCLEAR */
    if (chance(20)) a |= 1u << 31;                                          /* READ_STCLEAR */
    if (chance(15)) a |= 1u << 13;                                          /* WRITEDEFINE */
    if (chance(10) && n.type == 0) a |= 1u << 12;                           /* WRITEALL */
    if (chance(15)) a |= 1u << 15;                                          /* GLOBALLOCK */
    n.attrs = a; strcpy(n.auth, chance(60) ? "n" : "");
    for (int i = 0; i < w->nnv; i++) if (w->nv[i].idx == n.idx) return;
    cmd_begin(b, ST_SESSIONS, CC_NV_DefineSpace); b_u32(b, RH_OWNER); auth_pw_s(b, w->ownerAuth);
    b_2b(b, n.auth, strlen(n.auth)); b_u16(b, 14); b_u32(b, n.idx); b_u16(b, ALG_SHA256); b_u32(b, a); b_u16(b, 0); b_u16(b, n.size);
    Rsp r = w_run(w, b);
    if (r.rc == 0) w->nv[w->nnv++] = n;
}
static void op_nv_use(World *w, Buf *b) {
    if (!w->nnv) return;
    int i = rnd(w->nnv); WNv *n = &w->nv[i];
    int byowner = chance(40);
    uint32_t ah = byowner ? RH_OWNER : n->idx; const char *pw = byowner ? w->ownerAuth : n->auth;
    if (chance(8)) pw = "wrong";
    int k = rnd(10);
    if (k < 4) { /* write-type op by type */
        if (n->type == 0) { uint16_t len = n->attrs & (1u << 12) ? (n->size > 1024 ? 1024 : n->size) : 1 + rnd(n->size > 64 ? (chance(20) ? (n->size > 1024 ? 1024 : n->size) : 64) : n->size); uint16_t off = n->attrs & (1u << 12) ? 0 : rnd(n->size - len + 1);
            uint8_t d[1024]; for (int q = 0; q < len; q++) d[q] = rnd(256);
            cmd_begin(b, ST_SESSIONS, CC_NV_Write); b_u32(b, ah); b_u32(b, n->idx); auth_pw_s(b, pw); b_2b(b, d, len); b_u16(b, off); }
        else if (n->type == 1) { cmd_begin(b, ST_SESSIONS, CC_NV_Increment); b_u32(b, ah); b_u32(b, n->idx); auth_pw_s(b, pw); }
        else if (n->type == 2) { cmd_begin(b, ST_SESSIONS, CC_NV_SetBits); b_u32(b, ah); b_u32(b, n->idx); auth_pw_s(b, pw); b_u64(b, 1ULL << rnd(64)); }
        else { cmd_begin(b, ST_SESSIONS, CC_NV_Extend); b_u32(b, ah); b_u32(b, n->idx); auth_pw_s(b, pw); b_2b(b, "extend-data", 11); }
        Rsp r = w_run(w, b); if (r.rc == 0) n->written = 1;
    } else if (k < 7) { uint16_t rs = chance(70) ? (n->size > 512 ? 512 : n->size) : (uint16_t[]){1, 1024, 1025, 2048, 2049}[rnd(5)]; if (chance(30)) rs = n->size;
        uint16_t ro = (rs < n->size && chance(30)) ? rnd(n->size - rs + 1) : 0;
        cmd_begin(b, ST_SESSIONS, CC_NV_Read); b_u32(b, ah); b_u32(b, n->idx); auth_pw_s(b, pw); b_u16(b, rs); b_u16(b, ro); w_run(w, b); }
    else if (k == 7) { cmd_begin(b, ST_SESSIONS, chance(50) ? CC_NV_WriteLock : CC_NV_ReadLock); b_u32(b, ah); b_u32(b, n->idx); auth_pw_s(b, pw); w_run(w, b); }
    else if (k == 8) { cmd_begin(b, ST_NO_SESSIONS, CC_NV_ReadPublic); b_u32(b, n->idx); w_run(w, b); }
    else { cmd_begin(b, ST_SESSIONS, CC_NV_UndefineSpace); b_u32(b, RH_OWNER); b_u32(b, n->idx); auth_pw_s(b, w->ownerAuth);
        Rsp r = w_run(w, b); if (r.rc == 0) { w->nv_gone |= 1u << (n->idx & 31); w->nv[i] = w->nv[--w->nnv]; } }
}
static void op_pcr(World *w, Buf *b) {
    int k = rnd(10);
    if (k < 5) { int pcr = (int[]){0, 7, 10, 16, 23}[rnd(5)];
        cmd_begin(b, ST_SESSIONS, CC_PCR_Extend); b_u32(b, pcr); auth_pw_s(b, "");
        int n = 1 + rnd(2); b_u32(b, n);
        for (int i = 0; i < n; i++) { uint16_t alg = i == 0 ? ALG_SHA256 : ALG_SHA1; b_u16(b, alg); int dl = alg == ALG_SHA256 ? 32 : 20; for (int q = 0; q < dl; q++) b_u8(b, rnd(256)); }
        w_run(w, b); }
    else if (k < 7) { cmd_begin(b, ST_SESSIONS, CC_PCR_Event); b_u32(b, 10 + rnd(3)); auth_pw_s(b, ""); b_2b(b, "event data", rnd(11)); w_run(w, b); }
    else if (k < 9) { cmd_begin(b, ST_SESSIONS, CC_PCR_Reset); b_u32(b, chance(70) ? 16 : (chance(50) ? 23 : 5)); auth_pw_s(b, ""); w_run(w, b); }
    else if (chance(40)) { /* PCR_Allocate: takes effect at the next TPM Reset only */
        static const uint16_t algs[] = {ALG_SHA1, ALG_SHA256, ALG_SHA384, ALG_SHA512};
        unsigned sel = 1 + rnd(15);
        cmd_begin(b, ST_SESSIONS, CC_PCR_Allocate); b_u32(b, RH_PLATFORM); auth_pw_s(b, w->platformAuth);
        b_u32(b, 4);
        for (int i = 0; i < 4; i++) { b_u16(b, algs[i]); b_u8(b, 3); uint8_t v = (sel >> i) & 1 ? 0xff : 0; b_u8(b, v); b_u8(b, v); b_u8(b, v); }
        w_run(w, b); }
    else { cmd_begin(b, ST_NO_SESSIONS, CC_PCR_Read); b_u32(b, 1); b_u16(b, ALG_SHA256); b_u8(b, 3); b_u8(b, 0xff); b_u8(b, 0); b_u8(b, 1); w_run(w, b); }
}
static void op_hierarchy(World *w, Buf *b) {
    int k = rnd(10);
    if (k < 4) { uint32_t h = (uint32_t[]){RH_OWNER, RH_ENDORSEMENT, RH_LOCKOUT, RH_PLATFORM}[rnd(4)];
        char na[4]; na[0] = 'a' + rnd(3); na[1] = 0; if (chance(25)) na[0] = 0;
        cmd_begin(b, ST_SESSIONS, CC_HierarchyChangeAuth); b_u32(b, h); auth_pw_s(b, w_hauth(w, h)); b_2b(b, na, strlen(na));
        Rsp r = w_run(w, b);
        if (r.rc == 0) strcpy((char *)w_hauth(w, h), na); }
    else if (k < 6) { cmd_begin(b, ST_SESSIONS, CC_ClearControl); b_u32(b, RH_PLATFORM); auth_pw_s(b, w->platformAuth); b_u8(b, rnd(2)); w_run(w, b); }
    else if (k < 8) { uint32_t h = (uint32_t[]){RH_OWNER, RH_ENDORSEMENT, RH_LOCKOUT}[rnd(3)];
        uint8_t pol[32]; for (int i = 0; i < 32; i++) pol[i] = rnd(256);
        cmd_begin(b, ST_SESSIONS, CC_SetPrimaryPolicy); b_u32(b, h); auth_pw_s(b, w_hauth(w, h)); if (chance(70)) { b_2b(b, pol, 32); b_u16(b, ALG_SHA256); } else { b_u16(b, 0); b_u16(b, ALG_NULL); } w_run(w, b); }
    else if (k == 8) { cmd_begin(b, ST_SESSIONS, CC_DictionaryAttackParameters); b_u32(b, RH_LOCKOUT); auth_pw_s(b, w->lockoutAuth); b_u32(b, 3 + rnd(30)); b_u32(b, 1 + rnd(5000)); b_u32(b, rnd(2000)); w_run(w, b); }
    else { cmd_begin(b, ST_SESSIONS, CC_DictionaryAttackLockReset); b_u32(b, RH_LOCKOUT); auth_pw_s(b, w->lockoutAuth); w_run(w, b); }
}
static void op_misc(World *w, Buf *b) {
    switch (rnd(8)) {
    case 0: cmd_begin(b, ST_NO_SESSIONS, CC_GetRandom); b_u16(b, 1 + rnd(32)); break;
    case 1: cmd_begin(b, ST_NO_SESSIONS, CC_StirRandom); b_2b(b, "stir", 4); break;
    case 2: cmd_begin(b, ST_NO_SESSIONS, CC_ReadClock); break;
    case 3: cmd_begin(b, ST_SESSIONS, CC_ClockSet); b_u32(b, RH_OWNER); auth_pw_s(b, w->ownerAuth); b_u64(b, 1000ULL * rnd(100000)); break;
    case 4: cmd_begin(b, ST_SESSIONS, CC_ClockRateAdjust); b_u32(b, RH_OWNER); auth_pw_s(b, w->ownerAuth); b_u8(b, (uint8_t)(int8_t)((int)rnd(7) - 3)); break;
    case 5: cmd_begin(b, ST_NO_SESSIONS, CC_Hash); b_2b(b, "hash me", 7); b_u16(b, ALG_SHA256); b_u32(b, RH_OWNER); break;
    case 6: cmd_begin(b, ST_NO_SESSIONS, CC_GetCapability); b_u32(b, rnd(10)); b_u32(b, rnd(0x300)); b_u32(b, 1 + rnd(40)); break;
    default: cmd_begin(b, ST_NO_SESSIONS, CC_TestParms); b_u16(b, ALG_KEYEDHASH); b_u16(b, ALG_HMAC); b_u16(b, ALG_SHA256); break;
    }
    w_run(w, b);
}
static void op_use_key(World *w, Buf *b) {
    if (!w->nobj) return;
    WObj *o = &w->obj[rnd(w->nobj)];
    if (o->kind == 0) { uint8_t dg[32]; for (int i = 0; i < 32; i++) dg[i] = rnd(256);
        cmd_begin(b, ST_SESSIONS, CC_Sign); b_u32(b, o->h); auth_pw_s(b, chance(85) ? "k" : ""); b_2b(b, dg, 32); b_u16(b, ALG_NULL); b_u16(b, 0x8024 /* TPM_ST_HASHCHECK */); b_u32(b, RH_NULL); b_u16(b, 0); }
    else if (o->kind == 1) { cmd_begin(b, ST_SESSIONS, CC_HMAC); b_u32(b, o->h); auth_pw_s(b, chance(85) ? "k" : ""); b_2b(b, "hmac data", 9); b_u16(b, ALG_SHA256); }
    else if (o->kind == 2) { uint8_t iv[16] = {0}; cmd_begin(b, ST_SESSIONS, CC_EncryptDecrypt2); b_u32(b, o->h); auth_pw_s(b, chance(85) ? "k" : ""); b_2b(b, "0123456789abcdef", 16); b_u8(b, 0); b_u16(b, ALG_CFB); b_2b(b, iv, 16); }
    else { cmd_begin(b, ST_NO_SESSIONS, CC_ReadPublic); b_u32(b, o->h); }
    w_run(w, b);
}

/* ---- administrative commands that change seeds, proofs, enables, audit configuration, the PP list; child objects ---- */
#define CC_SetCommandCodeAuditStatus 0x140
#define CC_PP_Commands 0x12D
#define CC_GetCommandAuditDigest 0x133
static int g_gen_host_rng_ok;   /* scenarios without a twin-run oracle may create children whose keys come from the crypto library's generator */
static void w_drop_objects(World *w, uint32_t hier) {
    for (int i = 0; i < w->nobj; ) if ((uint32_t)w->obj[i].hier == hier) w->obj[i] = w->obj[--w->nobj]; else i++;
}
static void w_drop_pers(World *w, int platform) {
    for (int i = 0; i < w->npers; ) if ((w->pers[i] >= 0x81800000u) == (platform != 0)) w->pers[i] = w->pers[--w->npers]; else i++;
}
static void op_admin(World *w, Buf *b) {
    int k = rnd(13);
    if (k == 0) { /* TPM2_Clear by lockout or platform authorization */
        uint32_t ah = chance(50) ? RH_LOCKOUT : RH_PLATFORM;
        cmd_begin(b, ST_SESSIONS, CC_Clear); b_u32(b, ah); auth_pw_s(b, w_hauth(w, ah));
        Rsp r = w_run(w, b);
        if (r.rc == 0) { for (int q = 0; q < w->nnv; q++) w->nv_gone |= 1u << (w->nv[q].idx & 31); w->ownerAuth[0] = w->endorseAuth[0] = w->lockoutAuth[0] = 0; w->nnv = 0; w->dis[0] = w->dis[1] = 0; w_drop_objects(w, RH_OWNER); w_drop_objects(w, RH_ENDORSEMENT); w_drop_pers(w, 0); }
    } else if (k == 1) { /* new endorsement / platform primary seed */
        int eps = chance(50);
        cmd_begin(b, ST_SESSIONS, eps ? CC_ChangeEPS : CC_ChangePPS); b_u32(b, RH_PLATFORM); auth_pw_s(b, w->platformAuth);
        Rsp r = w_run(w, b);
        if (r.rc == 0) { if (eps) { w->endorseAuth[0] = 0; w->dis[1] = 0; w_drop_objects(w, RH_ENDORSEMENT); } else { w_drop_objects(w, RH_PLATFORM); w_drop_pers(w, 1); } }
    } else if (k < 5) { /* HierarchyControl: disabling (by the hierarchy's own or the platform authorization), enabling (platform only) */
        uint32_t en = (uint32_t[]){RH_OWNER, RH_ENDORSEMENT, 0x4000000D /* PLATFORM_NV */}[rnd(3)];
        int state = chance(65);
        uint32_t ah = (state || en == 0x4000000D || chance(50)) ? RH_PLATFORM : en;
        cmd_begin(b, ST_SESSIONS, CC_HierarchyControl); b_u32(b, ah); auth_pw_s(b, w_hauth(w, ah)); b_u32(b, en); b_u8(b, state);
        Rsp r = w_run(w, b);
        if (r.rc == 0 && en != 0x4000000D) { w->dis[en == RH_OWNER ? 0 : 1] = !state; if (!state) w_drop_objects(w, en); }
    } else if (k < 8) { /* command audit configuration */
        static const uint32_t ccs[] = {CC_NV_Write, CC_PCR_Extend, CC_GetRandom, CC_HierarchyChangeAuth, CC_ClockSet, CC_NV_Read, CC_StartAuthSession};
        uint32_t ah = chance(70) ? RH_OWNER : RH_PLATFORM;
        cmd_begin(b, ST_SESSIONS, CC_SetCommandCodeAuditStatus); b_u32(b, ah); auth_pw_s(b, w_hauth(w, ah));
        int chg_alg = chance(20);
        b_u16(b, chg_alg ? (chance(50) ? ALG_SHA1 : ALG_SHA384) : ALG_NULL);
        int ns = chg_alg ? 0 : rnd(3), nc = chg_alg ? 0 : rnd(2);
        b_u32(b, ns); for (int i = 0; i < ns; i++) b_u32(b, ccs[rnd(7)]);
        b_u32(b, nc); for (int i = 0; i < nc; i++) b_u32(b, ccs[rnd(7)]);
        w_run(w, b);
    } else if (k == 8) { /* the list of commands that need physical presence */
        static const uint32_t ccs[] = {CC_Clear, CC_ChangeEPS, CC_PCR_Allocate, CC_HierarchyControl, CC_ClearControl};
        int pp = g_pp; g_pp = chance(85);
        cmd_begin(b, ST_SESSIONS, CC_PP_Commands); b_u32(b, RH_PLATFORM); auth_pw_s(b, w->platformAuth);
        int ns = rnd(2), nc = rnd(3);
        b_u32(b, ns); for (int i = 0; i < ns; i++) b_u32(b, ccs[rnd(5)]);
        b_u32(b, nc); for (int i = 0; i < nc; i++) b_u32(b, ccs[rnd(5)]);
        w_run(w, b); g_pp = pp;
    } else if (k == 9) { uint32_t ah = chance(60) ? RH_OWNER : RH_PLATFORM;
        cmd_begin(b, ST_SESSIONS, CC_NV_GlobalWriteLock); b_u32(b, ah); auth_pw_s(b, w_hauth(w, ah)); w_run(w, b);
    } else if (k == 10) { /* the command audit digest, unsigned: reading it resets it */
        cmd_begin(b, ST_SESSIONS, CC_GetCommandAuditDigest); b_u32(b, RH_ENDORSEMENT); b_u32(b, RH_NULL);
        b_u32(b, 18); b_u32(b, RS_PW); b_u16(b, 0); b_u8(b, 0); b_2b(b, w->endorseAuth, strlen(w->endorseAuth)); b_u32(b, RS_PW); b_u16(b, 0); b_u8(b, 0); b_u16(b, 0);
        b_put32(b, 18, (uint32_t)(9 + strlen(w->endorseAuth) + 9));
        b_2b(b, "q", 1); b_u16(b, ALG_NULL);
        w_run(w, b);
    } else { /* a child of a storage primary: Create, then Load */
        WObj *par = NULL; for (int i = 0; i < w->nobj; i++) if (w->obj[i].kind == 3) par = &w->obj[i];
        if (!par || w->nobj >= 3) return;
        /* keyedhash or symcipher children only: their secrets come from the TPM's own DRBG (part of the state), whereas ECC/RSA
           children are generated with the crypto library's generator, which the twin-run oracle could not compare */
        Buf t = {0}; int kind = rnd(g_gen_host_rng_ok ? 3 : 2);
        if (kind == 0) tmpl_keyedhash(&t, NULL, 0); else if (kind == 1) tmpl_symcipher(&t, NULL, 0); else tmpl_ecc_sign(&t, 0, NULL, 0);
        const char *pauth = chance(90) ? "k" : "";
        cmd_begin(b, ST_SESSIONS, CC_Create); b_u32(b, par->h); auth_pw_s(b, pauth);
        b_u16(b, 4 + 1); b_2b(b, "c", 1); b_u16(b, 0); b_2b(b, t.p, t.n); b_u16(b, 0); b_u32(b, 0); b_free(&t);
        Rsp r = w_run(w, b);
        if (r.rc != 0) return;
        Rd rd = rsp_params(&r, 0); uint16_t prl, pul; const uint8_t *priv = r_2b(&rd, &prl); const uint8_t *pub = r_2b(&rd, &pul);
        if (rd.err) return;
        /* the Load goes through the caller's buffer: callers treat `b` as the last command sent */
        Buf l = {0}; b_2b(&l, priv, prl); b_2b(&l, pub, pul);
        uint32_t parent = par->h;
        cmd_begin(b, ST_SESSIONS, CC_Load); b_u32(b, parent); auth_pw_s(b, pauth); b_bytes(b, l.p, l.n); b_free(&l);
        long create_stores = w->last_stores;
        Rsp r2 = w_run(w, b);
        w->last_stores += create_stores;      /* callers look at the whole operation: what Create handed to storage counts */
        if (r2.rc == 0 && r2.len >= 14) { WObj *o = &w->obj[w->nobj++]; o->h = g32(r2.p + 10); o->kind = kind == 0 ? 1 : kind == 1 ? 2 : 0; o->hier = par->hier; o->persistent = 0; }
    }
}

/* hierarchies disabled by HierarchyControl come back at any Reset/Restart: a comparison across such a restart first enables
   them again (callers work on a snapshot that is restored afterwards) */
static void w_enable_hierarchies(World *w, Buf *b) {
    int pp = g_pp; g_pp = 1;   /* PP_Commands may have put HierarchyControl on the list of commands that need physical presence */
    for (int k = 0; k < 2; k++) if (w->dis[k]) {
        cmd_begin(b, ST_SESSIONS, CC_HierarchyControl); b_u32(b, RH_PLATFORM); auth_pw_s(b, w->platformAuth); b_u32(b, k == 0 ? RH_OWNER : RH_ENDORSEMENT); b_u8(b, 1);
        if (run(b).rc == 0) w->dis[k] = 0; }
    g_pp = pp;
}

/* one random state-building op */
static void gen_op(World *w, Buf *b) {
    switch (rnd(26)) {
    case 0: case 1: op_create_primary(w, b); break;
    case 2: op_flush_object(w, b); break;
    case 3: op_evict(w, b); break;
    case 4: case 5: op_start_session(w, b); break;
    case 6: op_flush_session(w, b); break;
    case 7: op_policy(w, b); break;
    case 8: op_ctx_save(w, b); break;
    case 9: op_ctx_load(w, b); break;
    case 10: case 11: op_hash_seq(w, b); break;
    case 12: case 13: op_nv_define(w, b); break;
    case 14: case 15: case 16: op_nv_use(w, b); break;
    case 17: case 18: op_pcr(w, b); break;
    case 19: case 20: op_hierarchy(w, b); break;
    case 21: op_use_key(w, b); break;
    case 24: case 25: op_admin(w, b); break;
    default: op_misc(w, b); break;
    }
}

/* ---- fingerprint batteries: read-only commands; digest over all responses ---- */
static void batt_add(EVP_MD_CTX *md, Buf *b, int strip_time) {
    b_put32(b, 2, (uint32_t)b->n);
    Rsp r = run_raw(b->p, (uint32_t)b->n);
    (void)strip_time;
    if (g_resp_dump) { fprintf(g_resp_dump, "batt cc=%x ", g32(b->p + 6)); for (size_t i = 10; i < b->n && i < 40; i++) fprintf(g_resp_dump, "%02x", b->p[i]); fprintf(g_resp_dump, " -> "); for (uint32_t i = 0; i < r.len; i++) fprintf(g_resp_dump, "%02x", r.p[i]); fputc('\n', g_resp_dump); }
    EVP_DigestUpdate(md, &r.len, 4); EVP_DigestUpdate(md, r.p, r.len);
}
/* mode 0: full (volatile + persistent observables, no clock); mode 1: persistent entities only; mode 2: mode 1 + orderly counters; mode 3: mode 1 + all orderly NV indices */
static void battery(World *w, Buf *b, int mode, uint8_t out[32]) {
    EVP_MD_CTX *md = EVP_MD_CTX_new(); EVP_DigestInit_ex(md, EVP_sha256(), NULL);
    int save_trace = 0; (void)save_trace;
    if (g_resp_dump) fprintf(g_resp_dump, "battery mode=%d\n", mode);
    if (mode == 0) {
        static const uint32_t caps[][2] = { {0, 0}, {1, 0x02000000}, {1, 0x03000000}, {1, 0x80000000}, {1, 0x81000000}, {1, 0x01000000}, {1, 0x40000000}, {1, 0},
                                            {2, 0x11f}, {3, 0x11f}, {4, 0x11f}, {5, 0}, {7, 0}, {8, 0}, {9, 0x40000001} };
        for (unsigned i = 0; i < sizeof caps / sizeof caps[0]; i++) { cmd_begin(b, ST_NO_SESSIONS, CC_GetCapability); b_u32(b, caps[i][0]); b_u32(b, caps[i][1]); b_u32(b, 200); batt_add(md, b, 0); }
        /* fixed and variable properties except the clock-bearing ones are all stable */
        cmd_begin(b, ST_NO_SESSIONS, CC_GetCapability); b_u32(b, 6); b_u32(b, 0x100); b_u32(b, 200); batt_add(md, b, 0);
        cmd_begin(b, ST_NO_SESSIONS, CC_GetCapability); b_u32(b, 6); b_u32(b, 0x200); b_u32(b, 200); batt_add(md, b, 0);
        static const uint16_t algs[] = {ALG_SHA1, ALG_SHA256, ALG_SHA384, ALG_SHA512};
        for (int a = 0; a < 4; a++) for (int part = 0; part < 3; part++) { cmd_begin(b, ST_NO_SESSIONS, CC_PCR_Read); b_u32(b, 1); b_u16(b, algs[a]); b_u8(b, 3); b_u8(b, part == 0 ? 0xff : 0); b_u8(b, part == 1 ? 0xff : 0); b_u8(b, part == 2 ? 0xff : 0); batt_add(md, b, 0); }
        for (int i = 0; i < w->nobj; i++) { cmd_begin(b, ST_NO_SESSIONS, CC_ReadPublic); b_u32(b, w->obj[i].h); batt_add(md, b, 0); }
        for (int i = 0; i < w->nsess; i++) if (w->sess[i].policy) { cmd_begin(b, ST_NO_SESSIONS, CC_PolicyGetDigest); b_u32(b, w->sess[i].h); batt_add(md, b, 0); }
    } else {
        static const uint32_t caps[][2] = { {1, 0x81000000}, {1, 0x01000000} };
        for (unsigned i = 0; i < 2; i++) { cmd_begin(b, ST_NO_SESSIONS, CC_GetCapability); b_u32(b, caps[i][0]); b_u32(b, caps[i][1]); b_u32(b, 200); batt_add(md, b, 0); }
        /* DA parameters (not the counter), disableClear etc. */
        for (uint32_t pt = 0x200 + 15; pt <= 0x200 + 17; pt++) { cmd_begin(b, ST_NO_SESSIONS, CC_GetCapability); b_u32(b, 6); b_u32(b, pt); b_u32(b, 1); batt_add(md, b, 0); }
        /* TPM_PT_PERMANENT without inLockout (the failure count may legitimately move at an unorderly restart) */
        { cmd_begin(b, ST_NO_SESSIONS, CC_GetCapability); b_u32(b, 6); b_u32(b, 0x200); b_u32(b, 1); b_put32(b, 2, (uint32_t)b->n); Rsp r = run_raw(b->p, (uint32_t)b->n);
          uint32_t v = (r.rc == 0 && r.len >= 27) ? (g32(r.p + 23) & ~(1u << 9)) : 0xFFFFFFFFu; EVP_DigestUpdate(md, &v, 4);
          if (g_resp_dump) fprintf(g_resp_dump, "batt permanent -> %08x\n", v); }
        /* audit configuration, the physical-presence list, the hierarchy policies */
        cmd_begin(b, ST_NO_SESSIONS, CC_GetCapability); b_u32(b, 4); b_u32(b, 0x11f); b_u32(b, 200); batt_add(md, b, 0);
        cmd_begin(b, ST_NO_SESSIONS, CC_GetCapability); b_u32(b, 3); b_u32(b, 0x11f); b_u32(b, 200); batt_add(md, b, 0);
        { static const uint32_t ph[3] = {RH_OWNER, RH_LOCKOUT, RH_ENDORSEMENT};
          for (int k = 0; k < 3; k++) { cmd_begin(b, ST_NO_SESSIONS, CC_GetCapability); b_u32(b, 9); b_u32(b, ph[k]); b_u32(b, 1); batt_add(md, b, 0); } }
        /* lockoutAuth: a policy session takes it through PolicySecret (no other effect when it is right) */
        { uint8_t nonce[16] = {0};
          cmd_begin(b, ST_NO_SESSIONS, CC_StartAuthSession); b_u32(b, RH_NULL); b_u32(b, RH_NULL); b_2b(b, nonce, 16); b_u16(b, 0); b_u8(b, 1); b_u16(b, ALG_NULL); b_u16(b, ALG_SHA256);
          Rsp r = run(b);
          if (r.rc == 0 && r.len >= 14) { uint32_t sh = g32(r.p + 10);
              cmd_begin(b, ST_SESSIONS, CC_PolicySecret); b_u32(b, RH_LOCKOUT); b_u32(b, sh); auth_pw_s(b, w->lockoutAuth); b_u16(b, 0); b_u16(b, 0); b_u16(b, 0); b_u32(b, 0);
              b_put32(b, 2, (uint32_t)b->n); Rsp pr = run_raw(b->p, (uint32_t)b->n); EVP_DigestUpdate(md, &pr.rc, 4);
              if (g_resp_dump) fprintf(g_resp_dump, "batt lockoutauth -> %x\n", pr.rc);
              cmd_begin(b, ST_NO_SESSIONS, CC_FlushContext); b_u32(b, sh); run(b); } }
    }
    if (mode != 0) {   /* seeds and proofs: a primary made from a fixed template (Name from the seed, creation ticket from the proof) */
        static const uint32_t hs[2] = {RH_OWNER, RH_ENDORSEMENT};
        for (int k = 0; k < 2; k++) { Buf t = {0}; tmpl_keyedhash(&t, NULL, 0);
            cmd_begin(b, ST_SESSIONS, CC_CreatePrimary); b_u32(b, hs[k]); auth_pw_s(b, w_hauth(w, hs[k])); b_u16(b, 4); b_u16(b, 0); b_u16(b, 0); b_2b(b, t.p, t.n); b_u16(b, 0); b_u32(b, 0); b_free(&t);
            b_put32(b, 2, (uint32_t)b->n); Rsp r = run_raw(b->p, (uint32_t)b->n);
            /* everything but the transient handle the object happened to get */
            EVP_DigestUpdate(md, &r.len, 4); EVP_DigestUpdate(md, r.p, r.len < 10 ? r.len : 10); if (r.len > 14) EVP_DigestUpdate(md, r.p + 14, r.len - 14);
            if (g_resp_dump) { fprintf(g_resp_dump, "batt seedprobe hier=%x -> ", hs[k]); for (uint32_t i = 0; i < r.len; i++) fprintf(g_resp_dump, "%02x", r.p[i]); fputc('\n', g_resp_dump); }
            if (r.rc == 0 && r.len >= 14) { cmd_begin(b, ST_NO_SESSIONS, CC_FlushContext); b_u32(b, g32(r.p + 10)); run(b); } }
    }
    for (int i = 0; i < w->npers; i++) { cmd_begin(b, ST_NO_SESSIONS, CC_ReadPublic); b_u32(b, w->pers[i]); batt_add(md, b, 0); }
    for (int i = 0; i < w->nnv; i++) {
        WNv *n = &w->nv[i];
        if (mode == 0) { cmd_begin(b, ST_NO_SESSIONS, CC_NV_ReadPublic); b_u32(b, n->idx); batt_add(md, b, 0); }
        /* orderly data: counters survive any orderly restart (mode 2); other orderly indices become unwritten at a TPM Reset
           and survive only Resume/Restart (mode 3) */
        int orderly = (n->attrs & (1u << 26)) != 0;
        int volatile_data = (orderly && !(mode == 3 || (mode == 2 && n->type == 1))) || (n->attrs & (1u << 27));
        if (mode == 0 || !volatile_data) {
            if (mode != 0 && (n->attrs & (1u << 31))) continue;       /* read lock state differs across reset */
            cmd_begin(b, ST_SESSIONS, CC_NV_Read); b_u32(b, RH_OWNER); b_u32(b, n->idx); auth_pw_s(b, w->ownerAuth); b_u16(b, n->size > 512 ? 512 : n->size); b_u16(b, 0); batt_add(md, b, 0);
        }
    }
    unsigned l = 32; EVP_DigestFinal_ex(md, out, &l); EVP_MD_CTX_free(md);
}

/* ---- permanent blob comparison modulo the ORDERLY_DATA block (clock, safe, DRBG, DA timers) ---- */
static long find_magic(const uint8_t *p, long n, long from, uint32_t magic) {
    for (long i = from; i + 4 <= n; i++) if (g32(p + i) == magic) return i;
    return -1;
}
/* returns 1 when equal outside the ORDERLY_DATA block, 0 when different, -1 when the block could not be located */
static int perm_equal_masked(const uint8_t *a, uint32_t an, const uint8_t *b2, uint32_t bn) {
    long oa = find_magic(a, an, 0, 0x56657887), ob = find_magic(b2, bn, 0, 0x56657887);
    if (oa < 0 || ob < 0) return -1;
    long ea = find_magic(a, an, oa + 40, 0x01102332), eb = find_magic(b2, bn, ob + 40, 0x01102332);   /* STATE_RESET_DATA */
    long ia = find_magic(a, an, oa + 40, 0x5346feab), ib = find_magic(b2, bn, ob + 40, 0x5346feab);   /* INDEX_ORDERLY_RAM */
    if (ia < 0 || ib < 0) return -1;
    if (ea < 0 || ea > ia) ea = ia; if (eb < 0 || eb > ib) eb = ib;
    if (oa != ob || memcmp(a, b2, oa)) return 0;
    if (an - ea != bn - eb || memcmp(a + ea, b2 + eb, an - ea)) return 0;
    return 1;
}
#endif
