#!/usr/bin/env python3
"""Sanitized rebuild of /repo's current working tree (DESIGN.md section 9).

The compile commands are taken from `make -n -B -o Makefile ... -C /repo/src libtpms.la` (the -o options keep
make from re-running configure in /repo, which plain -B would do) so that added/removed
files and changed flags are followed.  gcc is swapped for clang-14 with ASan+UBSan; a handful of
per-file -D redirects give the harness control of time, entropy, cancellation polls and longjmp.
The result is cached under /verif/.cache/build-<hash of sources>/libtpms_san.a
"""
import hashlib, os, re, shlex, subprocess, sys, shutil, time, json
from concurrent.futures import ThreadPoolExecutor

VERIF = os.path.dirname(os.path.dirname(os.path.abspath(__file__)))
REPO = os.environ.get("VERIF_REPO", "/repo")
CACHE = os.path.join(VERIF, ".cache")

REDIRECTS = {
    "tpm2/Clock.c": ["-Dclock_gettime=verif_clock_gettime"],
    "tpm2/Entropy.c": ["-DRAND_bytes=verif_RAND_bytes", "-Drand=verif_rand"],
    "tpm2/crypto/openssl/CryptRsa.c": ["-D_plat__IsCanceled=verif_IsCanceled"],
    "tpm2/crypto/openssl/CryptEccSignature.c": ["-D_plat__IsCanceled=verif_IsCanceled"],
    "tpm2/AlgorithmTests.c": ["-D_plat__IsCanceled=verif_IsCanceled"],
    "tpm2/RunCommand.c": ["-Dlongjmp=verif_longjmp"],
}

SAN_FLAGS = ["-g", "-O1", "-fsanitize=address,undefined", "-fno-sanitize-recover=undefined",
             "-fno-omit-frame-pointer", "-fno-common"]
PLAIN_FLAGS = ["-g", "-O1", "-fno-common"]


def src_hash(repo=REPO):
    h = hashlib.sha256()
    roots = [os.path.join(repo, "src"), os.path.join(repo, "include")]
    files = [os.path.join(repo, "config.h")]
    for r in roots:
        for dp, dn, fn in os.walk(r):
            dn[:] = [d for d in dn if d not in (".libs", ".deps")]
            for f in fn:
                if f.endswith((".c", ".h", ".am", ".syms", ".inc")):
                    files.append(os.path.join(dp, f))
    for f in sorted(files):
        try:
            with open(f, "rb") as fh:
                data = fh.read()
        except OSError:
            continue
        h.update(os.path.relpath(f, repo).encode())
        h.update(b"\0")
        h.update(hashlib.sha256(data).digest())
    return h.hexdigest()[:16]


def compile_commands(repo=REPO):
    out = subprocess.run(["make", "-n", "-B", "-o", "Makefile", "-o", "../config.status", "-o", "../configure",
                          "-o", "../config.h", "-o", "Makefile.in", "-C", os.path.join(repo, "src"), "libtpms.la"],
                         capture_output=True, text=True)
    cmds = []
    for line in out.stdout.splitlines():
        if "--mode=compile" not in line:
            continue
        m = re.search(r"--mode=compile\s+(\S+)\s+(.*)$", line)
        if not m:
            continue
        rest = m.group(2)
        # the source file is in the trailing `test -f 'X' || echo './'`X
        ms = re.search(r"`test -f '([^']+)' \|\| echo '\./'`(\S+)\s*$", rest)
        if not ms:
            continue
        srcfile = ms.group(1)
        rest = rest[:ms.start()]
        toks = shlex.split(rest)
        flags = []
        skip = 0
        for i, t in enumerate(toks):
            if skip:
                skip -= 1
                continue
            if t in ("-MT", "-MF", "-o"):
                skip = 1
                continue
            if t in ("-MD", "-MP", "-c", "-Werror") or t.startswith("-D_FORTIFY_SOURCE") or t.startswith("-fstack-protector"):
                continue
            flags.append(t)
        cmds.append((srcfile, flags))
    return cmds


def build(plain=False, repo=REPO, quiet=False):
    """returns (dir, info). dir contains libtpms_san.a (or libtpms_plain.a)"""
    t0 = time.time()
    key = src_hash(repo)
    kind = "plain" if plain else "san"
    d = os.path.join(CACHE, "build-%s-%s" % (kind, key))
    lib = os.path.join(d, "libtpms_%s.a" % kind)
    if os.path.exists(lib) and os.path.exists(os.path.join(d, "ok")):
        os.utime(d)
        return d, {"cached": True, "srchash": key, "wall_s": 0.0}
    shutil.rmtree(d, ignore_errors=True)
    os.makedirs(os.path.join(d, "obj"), exist_ok=True)
    cmds = compile_commands(repo)
    if len(cmds) < 100:
        raise RuntimeError("build.py: could not derive compile commands from make -n (%d found)" % len(cmds))
    base = SAN_FLAGS if not plain else PLAIN_FLAGS
    srcdir = os.path.join(repo, "src")

    def one(item):
        srcfile, flags = item
        obj = os.path.join(d, "obj", srcfile.replace("/", "_")[:-2] + ".o")
        cmd = ["clang-14"] + base + flags + REDIRECTS.get(srcfile, []) + ["-w", "-c", srcfile, "-o", obj]
        r = subprocess.run(cmd, cwd=srcdir, capture_output=True, text=True)
        return (srcfile, obj, r.returncode, r.stderr)

    with ThreadPoolExecutor(max_workers=16) as ex:
        res = list(ex.map(one, cmds))
    bad = [r for r in res if r[2] != 0]
    if bad:
        msg = "\n".join("%s:\n%s" % (b[0], b[3][-2000:]) for b in bad[:3])
        raise RuntimeError("build.py: %d files failed to compile:\n%s" % (len(bad), msg))
    objs = [r[1] for r in res]
    subprocess.run(["ar", "rcs", lib] + objs, check=True)
    shutil.rmtree(os.path.join(d, "obj"), ignore_errors=True)
    open(os.path.join(d, "ok"), "w").write(key)
    # prune old caches (keep the 3 most recently used)
    ds = sorted([os.path.join(CACHE, x) for x in os.listdir(CACHE) if x.startswith("build-")],
                key=lambda p: os.path.getmtime(p), reverse=True)
    for old in ds[4:]:
        shutil.rmtree(old, ignore_errors=True)
    return d, {"cached": False, "srchash": key, "wall_s": round(time.time() - t0, 1), "objects": len(objs)}


if __name__ == "__main__":
    plain = "--plain" in sys.argv
    d, info = build(plain=plain)
    print(d)
    print(json.dumps(info), file=sys.stderr)
