/* C09: NV indices behave as specified. Every NV command is traced with its inputs, return code and output; the Lean
 * model (Model.Nv) predicts all of them, and every so often the public area, name and contents of every index. */
extern uint32_t verif_nv_used(void);
extern uint64_t verif_nv_maxcount(void);
extern uint16_t verif_get_orderlyState(void);
static uint32_t c9_key(Buf *b) {
    Buf t = {0}; b_u16(&t, ALG_KEYEDHASH); b_u16(&t, ALG_SHA256); b_u32(&t, 0x00040472u); b_u16(&t, 0); b_u16(&t, ALG_HMAC); b_u16(&t, ALG_SHA256); b_u16(&t, 0);
    cmd_begin(b, ST_SESSIONS, CC_CreatePrimary); b_u32(b, RH_OWNER); auth_pw(b, "", 0); b_u16(b, 4); b_u16(b, 0); b_u16(b, 0); b_2b(b, t.p, t.n); b_u16(b, 0); b_u32(b, 0);
    Rsp r = run(b); b_free(&t); return r.rc == 0 ? g32(r.p + 10) : 0;
}
#define C09_MAXIDX 24
typedef struct { uint32_t h; uint32_t attrs; uint16_t alg; uint16_t size; char auth[72]; int live; } C9Idx;
static C9Idx c9[C09_MAXIDX];
static uint32_t c9_evict;       /* persistent handle of the bystander object, 0 if none */

static const char *c9_authfor(uint32_t authHandle, C9Idx *x) { return authHandle == RH_OWNER || authHandle == RH_PLATFORM ? "" : x->auth; }
/* command with handles (authHandle, nvIndex), password session for authHandle */
static Rsp c9_cmd(Buf *b, uint32_t cc, uint32_t authHandle, C9Idx *x, const uint8_t *params, int pl) {
    cmd_begin(b, ST_SESSIONS, cc); b_u32(b, authHandle); b_u32(b, x->h); const char *a = c9_authfor(authHandle, x); auth_pw(b, a, strlen(a)); b_bytes(b, params, pl);
    return run(b);
}
static uint32_t c9_pickauth(C9Idx *x) { int r = rnd(10); return r < 5 ? x->h : r < 8 ? RH_OWNER : RH_PLATFORM; }
static void c9_readpublic(Buf *b, uint32_t h) {
    cmd_begin(b, ST_NO_SESSIONS, CC_NV_ReadPublic); b_u32(b, h); Rsp r = run(b);
    tr_begin("readpublic handle=%u rc=%u", h, r.rc); trhex("rsp", r.p + 10, r.len >= 10 ? r.len - 10 : 0); tr_end();
}
static void c9_sync(Buf *b) {
    tr("sync used=%u maxcount=%llu", verif_nv_used(), (unsigned long long)verif_nv_maxcount());
    for (int i = 0; i < C09_MAXIDX; i++) if (c9[i].h) {
        c9_readpublic(b, c9[i].h);
        /* contents through whichever authorization can read, in chunks of at most 1024 bytes */
        if (c9[i].live) for (int off = 0; off < c9[i].size || off == 0; off += 1024) {
            int n = c9[i].size - off > 1024 ? 1024 : c9[i].size - off; uint32_t ah = (c9[i].attrs >> 17 & 1) ? RH_OWNER : (c9[i].attrs >> 16 & 1) ? RH_PLATFORM : 0;
            if (!ah) break;   /* AUTHREAD only: reading would move a PIN counter; POLICYREAD only: not reachable with a password */
            uint8_t p[4] = { (uint8_t)(n >> 8), (uint8_t)n, (uint8_t)(off >> 8), (uint8_t)off };
            Rsp r = c9_cmd(b, CC_NV_Read, ah, &c9[i], p, 4);
            tr_begin("read handle=%u auth=%u size=%d offset=%d rc=%u", c9[i].h, ah, n, off, r.rc); if (r.rc == 0) trhex("data", r.p + 16, g16(r.p + 14)); tr_end();
            if (c9[i].size == 0) break;
        }
    }
    if (c9_evict) { cmd_begin(b, ST_NO_SESSIONS, CC_ReadPublic); b_u32(b, c9_evict); Rsp r = run(b);
        tr_begin("evictpublic handle=%u rc=%u", c9_evict, r.rc); trhex("rsp", r.p + 10, r.len >= 10 ? r.len - 10 : 0); tr_end(); }
}
static uint32_t c9_randattrs(int *ptype, uint16_t alg, uint16_t *psize, uint32_t authHandle) {
    static const int types[6] = {0, 1, 2, 4, 8, 9};
    int t = chance(45) ? 0 : types[rnd(6)]; if (chance(3)) t = 3 + rnd(4);   /* rarely an undefined type */
    uint32_t a = (uint32_t)t << 4;
    /* read/write authorizations */
    a |= (uint32_t)(rnd(16)) << 0;        /* PPWRITE OWNERWRITE AUTHWRITE POLICYWRITE */
    a |= (uint32_t)(rnd(16)) << 16;       /* PPREAD OWNERREAD AUTHREAD POLICYREAD */
    if (chance(85)) { if (!(a & 0xF)) a |= 1u << rnd(3); if (!(a & 0xF0000)) a |= 1u << (16 + rnd(3)); }
    if (chance(20)) a |= 1u << 12; if (chance(20)) a |= 1u << 13; if (chance(20)) a |= 1u << 14; if (chance(20)) a |= 1u << 15;
    if (chance(25)) a |= 1u << 26; if (chance(15)) a |= 1u << 27; if (chance(20)) a |= 1u << 31;
    a |= 1u << 25;                        /* NO_DA: the lockout logic is C08's */
    if (authHandle == RH_PLATFORM) a |= 1u << 30;
    if (chance(4)) a ^= 1u << 30; if (chance(3)) a |= 1u << (chance(50) ? 29 : chance(50) ? 11 : 28);
    if ((t == 8 || t == 9) && chance(80)) a &= ~((1u << 2) | (1u << 15) | (1u << 13));
    if (t == 1 && chance(80)) a &= ~(1u << 27);   /* CLEAR_STCLEAR is refused for counters */
    if (t == 1 && chance(30)) a |= 1u << 26;    /* orderly counters: the kind whose RAM copy runs ahead of NV */
    if ((a >> 27 & 1) && (a >> 13 & 1) && chance(80)) a &= ~(1u << 13);
    int dsz = alg == ALG_SHA1 ? 20 : alg == ALG_SHA256 ? 32 : alg == 0x000C ? 48 : 64;
    *psize = t == 0 ? (chance(70) ? rnd(65) : chance(50) ? rnd(2049) : 2040 + rnd(12)) : t == 4 ? dsz : 8;
    if (chance(4)) *psize += 1 + rnd(3);
    if ((a >> 12 & 1) && *psize > 1024 && chance(80)) a &= ~(1u << 12);
    *ptype = t; return a;
}
static void c9_define(Buf *b) {
    int slot = -1; for (int i = 0; i < C09_MAXIDX; i++) if (!c9[i].h) { slot = i; break; }
    uint32_t h = chance(12) && slot > 0 ? c9[rnd(slot)].h : 0x01500000u + rnd(64);   /* sometimes an existing index */
    if (!h) h = 0x01500000u + rnd(64);
    uint32_t ah = chance(70) ? RH_OWNER : RH_PLATFORM; uint16_t alg = c10_algs[rnd(4)], size; int t;
    uint32_t attrs = c9_randattrs(&t, alg, &size, ah);
    int adsz = alg == ALG_SHA1 ? 20 : alg == ALG_SHA256 ? 32 : alg == 0x000C ? 48 : 64;
    char auth[72]; int al = chance(80) ? rnd(5) : (int[]){adsz, adsz, adsz - 1, adsz + 1}[rnd(4)];   /* sometimes exactly as long as the name algorithm's digest, one less, one more */
    for (int q = 0; q < al; q++) auth[q] = 'a' + rnd(26); auth[al] = 0;
    uint8_t pol[64]; int pl = chance(25) ? (alg == ALG_SHA1 ? 20 : alg == ALG_SHA256 ? 32 : alg == 0x000C ? 48 : 64) : 0; if (pl && chance(10)) pl--; for (int q = 0; q < pl; q++) pol[q] = rnd(256);
    cmd_begin(b, ST_SESSIONS, CC_NV_DefineSpace); b_u32(b, ah); auth_pw(b, "", 0); b_2b(b, auth, al);
    b_u16(b, 4 + 2 + 4 + 2 + pl + 2); b_u32(b, h); b_u16(b, alg); b_u32(b, attrs); b_2b(b, pol, pl); b_u16(b, size);
    Rsp r = run(b);
    tr_begin("define auth=%u handle=%u alg=%u attrs=%u size=%u rc=%u", ah, h, alg, attrs, size, r.rc); trhex("authvalue", (uint8_t *)auth, al); trhex("policy", pol, pl); tr_end();
    if (r.rc == 0 && slot >= 0) { c9[slot].h = h; c9[slot].attrs = attrs; c9[slot].alg = alg; c9[slot].size = size; strcpy(c9[slot].auth, auth); c9[slot].live = 1; }
    else if (r.rc == 0) { /* no bookkeeping slot left: take it back so the harness keeps knowing every index */
        C9Idx tmp = { h, attrs, alg, size, "", 1 }; Rsp r2 = c9_cmd(b, CC_NV_UndefineSpace, ah, &tmp, NULL, 0); tr("undefine auth=%u handle=%u rc=%u", ah, h, r2.rc); }
}
static void c9_forget_owner_indices(void) { for (int i = 0; i < C09_MAXIDX; i++) if (c9[i].h && !(c9[i].attrs >> 30 & 1)) memset(&c9[i], 0, sizeof c9[i]); }

/* an authorization that is subject to dictionary-attack protection (all NV indices of this scenario are NO_DA): the first one after a
   startup makes the TPM record "DA used" in its orderly state (answering TPM_RC_RETRY once). What a restart does to NV must not
   depend on that record: a power cut after it is an unorderly shutdown like any other. */
static void c9_datouch(Buf *b) {
    Buf t = {0}; b_u16(&t, ALG_KEYEDHASH); b_u16(&t, ALG_SHA256); b_u32(&t, 0x00040072u /* sign, userWithAuth, sensitiveDataOrigin, fixedTPM, fixedParent; not noDA */); b_u16(&t, 0); b_u16(&t, ALG_HMAC); b_u16(&t, ALG_SHA256); b_u16(&t, 0);
    cmd_begin(b, ST_SESSIONS, CC_CreatePrimary); b_u32(b, RH_NULL); auth_pw(b, "", 0); b_u16(b, 4 + 2); b_2b(b, "da", 2); b_u16(b, 0); b_2b(b, t.p, t.n); b_u16(b, 0); b_u32(b, 0);
    Rsp r = run(b); b_free(&t);
    if (r.rc != 0 || r.len < 14) { tr("datouch create_rc=%u", r.rc); return; }
    uint32_t h = g32(r.p + 10); uint32_t rc1, rc2 = 0;
    cmd_begin(b, ST_SESSIONS, CC_HMAC); b_u32(b, h); auth_pw(b, "da", 2); b_2b(b, "x", 1); b_u16(b, ALG_SHA256); r = run(b); rc1 = r.rc;
    if (rc1 == 0x922) { cmd_begin(b, ST_SESSIONS, CC_HMAC); b_u32(b, h); auth_pw(b, "da", 2); b_2b(b, "x", 1); b_u16(b, ALG_SHA256); r = run(b); rc2 = r.rc; }
    /* every power cut after "DA used" counts as a failed try: after a few of them the TPM is in lockout; reset it and go on */
    if (rc1 == 0x921) { cmd_begin(b, ST_SESSIONS, CC_DictionaryAttackLockReset); b_u32(b, RH_LOCKOUT); auth_pw(b, "", 0); rc2 = run(b).rc; }
    tr("datouch rc=%u again=%u orderly=%u", rc1, rc2, verif_get_orderlyState());
    cmd_begin(b, ST_NO_SESSIONS, CC_FlushContext); b_u32(b, h); run(b);
}
static void scen_c09(int histories, int rounds) {
    Buf b = {0}; g_tpm2_statics = 1;
    for (int hh = 0; hh < histories; hh++) {
        tr("hist %d", hh); memset(c9, 0, sizeof c9); c9_evict = 0;
        tpm2_fresh(hh % 2 ? PROFILE_DEFAULT_V1 : NULL); tpm2_startup(&b, 0);
        if (hh % 4 == 1 || hh % 4 == 2) {   /* scripted: a counter removed by TPM2_Clear must still raise the floor for new counters */
            uint32_t attrs = (1u << 4) | (1u << 1) | (1u << 17) | (1u << 25) | (hh % 4 == 1 ? (1u << 26) : 0);
            for (int rep = 0; rep < 2; rep++) {
                uint32_t h = 0x01500050u + rep;
                cmd_begin(&b, ST_SESSIONS, CC_NV_DefineSpace); b_u32(&b, RH_OWNER); auth_pw(&b, "", 0); b_u16(&b, 0);
                b_u16(&b, 14); b_u32(&b, h); b_u16(&b, ALG_SHA256); b_u32(&b, attrs); b_u16(&b, 0); b_u16(&b, 8);
                Rsp r = run(&b); tr_begin("define auth=%u handle=%u alg=%u attrs=%u size=8 rc=%u", RH_OWNER, h, ALG_SHA256, attrs, r.rc); trhex("authvalue", NULL, 0); trhex("policy", NULL, 0); tr_end();
                C9Idx tmp = { h, attrs, ALG_SHA256, 8, "", 1 };
                for (int q = 0; q < 3 - 2 * rep; q++) { Rsp r2 = c9_cmd(&b, CC_NV_Increment, RH_OWNER, &tmp, NULL, 0); tr("increment handle=%u auth=%u rc=%u", h, RH_OWNER, r2.rc); }
                uint8_t p[4] = {0, 8, 0, 0}; Rsp r3 = c9_cmd(&b, CC_NV_Read, RH_OWNER, &tmp, p, 4);
                tr_begin("read handle=%u auth=%u size=8 offset=0 rc=%u", h, RH_OWNER, r3.rc); if (r3.rc == 0) trhex("data", r3.p + 16, g16(r3.p + 14)); tr_end();
                if (rep == 0) { cmd_begin(&b, ST_SESSIONS, CC_Clear); b_u32(&b, RH_PLATFORM); auth_pw(&b, "", 0); Rsp rc2 = run(&b); tr("clear rc=%u", rc2.rc); }
                else { Rsp r4 = c9_cmd(&b, CC_NV_UndefineSpace, RH_OWNER, &tmp, NULL, 0); tr("undefine auth=%u handle=%u rc=%u", RH_OWNER, h, r4.rc); }
            }
        }
        if (hh % 4 == 3 || hh % 4 == 0) {   /* scripted: an orderly counter runs ahead of its NV copy, then the power is cut — with and without "DA used" on record */
            uint32_t attrs = (1u << 4) | (1u << 1) | (1u << 17) | (1u << 25) | (1u << 26); uint32_t h = 0x01500060u;
            cmd_begin(&b, ST_SESSIONS, CC_NV_DefineSpace); b_u32(&b, RH_OWNER); auth_pw(&b, "", 0); b_u16(&b, 0);
            b_u16(&b, 14); b_u32(&b, h); b_u16(&b, ALG_SHA256); b_u32(&b, attrs); b_u16(&b, 0); b_u16(&b, 8);
            Rsp r = run(&b); tr_begin("define auth=%u handle=%u alg=%u attrs=%u size=8 rc=%u", RH_OWNER, h, ALG_SHA256, attrs, r.rc); trhex("authvalue", NULL, 0); trhex("policy", NULL, 0); tr_end();
            if (r.rc == 0) { int slot = -1; for (int i = 0; i < C09_MAXIDX; i++) if (!c9[i].h) { slot = i; break; }
                if (slot >= 0) { c9[slot].h = h; c9[slot].attrs = attrs; c9[slot].alg = ALG_SHA256; c9[slot].size = 8; c9[slot].auth[0] = 0; c9[slot].live = 1;
                    for (int q = 0, nq = 2 + rnd(4); q < nq; q++) { Rsp r2 = c9_cmd(&b, CC_NV_Increment, RH_OWNER, &c9[slot], NULL, 0); tr("increment handle=%u auth=%u rc=%u", h, RH_OWNER, r2.rc); }
                    if (hh % 4 == 3) c9_datouch(&b);
                    uint16_t ord = verif_get_orderlyState(); TPM_RESULT pr = tpm2_powercycle(); Rsp rs = tpm2_startup(&b, 0);
                    tr("restart orderly=%u state=0 ret=%u rc=%u", ord, pr, rs.rc);
                    c9_sync(&b); } }
        }
        for (int i = 0; i < rounds; i++) {
            int n = 0; int live[C09_MAXIDX]; for (int q = 0; q < C09_MAXIDX; q++) if (c9[q].h) live[n++] = q;
            int op = rnd(103);
            if (op >= 100) { c9_datouch(&b); continue; }
            if (n == 0 || op < 12) { c9_define(&b); continue; }
            C9Idx *x = &c9[live[rnd(n)]]; uint32_t ah = c9_pickauth(x);
            int t = x->attrs >> 4 & 15;
            if (op < 30) { /* NV_Write */
                int len = chance(60) ? (x->size ? 1 + rnd(x->size > 64 ? 64 : x->size) : 0) : chance(50) ? x->size : rnd(x->size + 3);
                if (len > 1024) len = 1024;
                int off = chance(60) ? 0 : chance(80) ? rnd(x->size + 1) : x->size + rnd(3); if (chance(50) && off + len > x->size && x->size >= len) off = x->size - len;
                if (t == 8 || t == 9) { len = 8; off = chance(90) ? 0 : off; }   /* PIN indices are written whole: the bytes a partial first write leaves are old NV memory */
                Buf p = {0}; b_u16(&p, len); for (int q = 0; q < len; q++) b_u8(&p, (t == 8 || t == 9) ? (q == 3 ? rnd(3) : q == 7 ? rnd(4) : 0) : rnd(256)); b_u16(&p, off);
                Rsp r = c9_cmd(&b, CC_NV_Write, ah, x, p.p, p.n);
                tr_begin("write handle=%u auth=%u offset=%d rc=%u", x->h, ah, off, r.rc); trhex("data", p.p + 2, len); tr_end(); b_free(&p);
            } else if (op < 42) { /* NV_Read */
                int len = chance(60) ? (x->size ? 1 + rnd(x->size > 64 ? 64 : x->size) : 0) : chance(50) ? x->size : rnd(x->size + 3);
                if (chance(3)) len = 1025; else if (len > 1024) len = 1024;
                int off = chance(60) ? 0 : chance(80) ? rnd(x->size + 1) : x->size + rnd(3);
                uint8_t p[4] = { (uint8_t)(len >> 8), (uint8_t)len, (uint8_t)(off >> 8), (uint8_t)off };
                Rsp r = c9_cmd(&b, CC_NV_Read, ah, x, p, 4);
                tr_begin("read handle=%u auth=%u size=%d offset=%d rc=%u", x->h, ah, len, off, r.rc); if (r.rc == 0) trhex("data", r.p + 16, g16(r.p + 14)); tr_end();
                if (chance(35)) {   /* the same bytes through NV_Certify (unsigned attestation) */
                    int cl = len > 1024 ? 1025 : len;
                    const char *a = c9_authfor(ah, x);
                    cmd_begin(&b, ST_SESSIONS, 0x184 /* NV_Certify */); b_u32(&b, RH_NULL); b_u32(&b, ah); b_u32(&b, x->h);
                    { size_t at = b.n; b_u32(&b, 0); b_u32(&b, RS_PW); b_u16(&b, 0); b_u8(&b, 0); b_u16(&b, 0); b_u32(&b, RS_PW); b_u16(&b, 0); b_u8(&b, 0); b_2b(&b, a, strlen(a)); b_put32(&b, at, (uint32_t)(b.n - at - 4)); }
                    b_u16(&b, 0); b_u16(&b, ALG_NULL); b_u16(&b, cl); b_u16(&b, off);
                    Rsp cr = run(&b);
                    tr_begin("certify handle=%u auth=%u size=%d offset=%d rc=%u", x->h, ah, cl, off, cr.rc);
                    if (cr.rc == 0) { Rd rd = rsp_params(&cr, 0); r_u16(&rd); r_u32(&rd); r_u16(&rd); uint16_t l; r_2b(&rd, &l); r_2b(&rd, &l); r_u64(&rd); r_u32(&rd); r_u32(&rd); r_u8(&rd); r_u64(&rd);
                        const uint8_t *nm = r_2b(&rd, &l); uint8_t nmc[70]; int nl = l <= 70 ? l : 0; memcpy(nmc, nm, nl); uint16_t ao = r_u16(&rd); const uint8_t *d = r_2b(&rd, &l);
                        if (!rd.err) { trhex("name", nmc, nl); fprintf(g_tr, " aoffset=%u", ao); trhex("data", d, l); } }
                    tr_end(); }
            } else if (op < 52) { Rsp r = c9_cmd(&b, CC_NV_Increment, ah, x, NULL, 0); tr("increment handle=%u auth=%u rc=%u", x->h, ah, r.rc); }
            else if (op < 58) { uint8_t p[2 + 48]; int len = rnd(49); p[0] = 0; p[1] = len; for (int q = 0; q < len; q++) p[2 + q] = rnd(256);
                Rsp r = c9_cmd(&b, CC_NV_Extend, ah, x, p, 2 + len); tr_begin("extend handle=%u auth=%u rc=%u", x->h, ah, r.rc); trhex("data", p + 2, len); tr_end(); }
            else if (op < 64) { uint8_t p[8]; for (int q = 0; q < 8; q++) p[q] = chance(50) ? 0 : 1 << rnd(8);
                Rsp r = c9_cmd(&b, CC_NV_SetBits, ah, x, p, 8); tr_begin("setbits handle=%u auth=%u rc=%u", x->h, ah, r.rc); trhex("bits", p, 8); tr_end(); }
            else if (op < 69) { Rsp r = c9_cmd(&b, CC_NV_WriteLock, ah, x, NULL, 0); tr("writelock handle=%u auth=%u rc=%u", x->h, ah, r.rc); }
            else if (op < 73) { Rsp r = c9_cmd(&b, CC_NV_ReadLock, ah, x, NULL, 0); tr("readlock handle=%u auth=%u rc=%u", x->h, ah, r.rc); }
            else if (op < 75) { uint32_t g = chance(50) ? RH_OWNER : RH_PLATFORM; cmd_begin(&b, ST_SESSIONS, CC_NV_GlobalWriteLock); b_u32(&b, g); auth_pw(&b, "", 0); Rsp r = run(&b); tr("globallock rc=%u", r.rc); }
            else if (op < 80) { c9_readpublic(&b, x->h); }
            else if (op < 86) { /* NV_UndefineSpace */
                uint32_t g = chance(70) ? ((x->attrs >> 30 & 1) ? RH_PLATFORM : RH_OWNER) : chance(50) ? RH_OWNER : RH_PLATFORM;
                Rsp r = c9_cmd(&b, CC_NV_UndefineSpace, g, x, NULL, 0); tr("undefine auth=%u handle=%u rc=%u", g, x->h, r.rc);
                if (r.rc == 0) memset(x, 0, sizeof *x);
            } else if (op < 93) { /* restart of every kind */
                int sd = rnd(3); if (sd) { Rsp r = tpm2_shutdown(&b, sd == 2 ? 1 : 0); tr("shutdown state=%d rc=%u", sd == 2, r.rc); }
                if (chance(20) && n) { /* a write after Shutdown undoes the orderly state */
                    C9Idx *y = &c9[live[rnd(n)]]; Rsp r = c9_cmd(&b, CC_NV_Increment, RH_OWNER, y, NULL, 0); tr("increment handle=%u auth=%u rc=%u", y->h, RH_OWNER, r.rc); }
                uint16_t ord = verif_get_orderlyState();
                TPM_RESULT pr = tpm2_powercycle(); int st = chance(50);
                Rsp r = tpm2_startup(&b, st); if (r.rc != 0) { st = 0; r = tpm2_startup(&b, 0); }
                tr("restart orderly=%u state=%d ret=%u rc=%u", ord, st, pr, r.rc);
                c9_sync(&b);
            } else if (op < 96) { TPM_RESULT r = tpm2_suspend_resume(NULL, NULL); tr("resume ret=%u", r); if (chance(50)) c9_sync(&b); }
            else if (op < 98) { /* a persistent object as bystander */
                if (!c9_evict) { uint32_t k = c9_key(&b); if (k) { uint32_t before = verif_nv_used();
                    cmd_begin(&b, ST_SESSIONS, CC_EvictControl); b_u32(&b, RH_OWNER); b_u32(&b, k); auth_pw(&b, "", 0); b_u32(&b, 0x81000010u); Rsp r = run(&b);
                    tr("evict on=1 rc=%u bytes=%u", r.rc, verif_nv_used() - before); if (r.rc == 0) c9_evict = 0x81000010u;
                    cmd_begin(&b, ST_NO_SESSIONS, CC_FlushContext); b_u32(&b, k); run(&b); } }
                else { cmd_begin(&b, ST_SESSIONS, CC_EvictControl); b_u32(&b, RH_OWNER); b_u32(&b, c9_evict); auth_pw(&b, "", 0); b_u32(&b, c9_evict); Rsp r = run(&b);
                    tr("evict on=0 rc=%u bytes=0", r.rc); if (r.rc == 0) c9_evict = 0; }
            } else if (op < 99) { cmd_begin(&b, ST_SESSIONS, CC_Clear); b_u32(&b, RH_PLATFORM); auth_pw(&b, "", 0); Rsp r = run(&b); tr("clear rc=%u", r.rc);
                if (r.rc == 0) { c9_forget_owner_indices();
                    if (c9_evict) { cmd_begin(&b, ST_NO_SESSIONS, CC_ReadPublic); b_u32(&b, c9_evict); Rsp r2 = run(&b); tr("evictaftercleared handle=%u rc=%u", c9_evict, r2.rc); if (r2.rc != 0) c9_evict = 0; } }
                c9_sync(&b); }
            else c9_sync(&b);
            if (i % 30 == 29) c9_sync(&b);
        }
        c9_sync(&b);
    }
    b_free(&b);
}
