#!/usr/bin/env python3
"""MANIFEST.setup_cmd: build the framework from files on disk only (offline)."""
import os, sys, subprocess
sys.path.insert(0, os.path.dirname(os.path.abspath(__file__)))
import vlib
d, info = vlib.build_impl()
print("impl build:", d, info)
print("gen:", vlib.gen_all(d))
print("harness:", vlib.build_harness(d))
ok, out = vlib.lake_build([])
print("lake build:", "ok" if ok else out[-3000:])
sys.exit(0 if ok else 1)
