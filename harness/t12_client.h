/* t12_client.h: the CLIENT side of TPM 1.2 authorization (OIAP/OSAP/ADIP, owner, NV, counters, keys, transport).
 * Needs core.h (Buf, Rsp, g16/g32, rnd64) and t12_begin()/T12_TAG0..2 from scen_tpm12.h; OpenSSL libcrypto.
 *
 * Every command goes through the caller-settable `t12c_run` (it sets paramSize, runs, traces).  Functions return the
 * TPM return code r.rc, or T12C_BAD (0xFFFFFFFF) when the answer could not be parsed.  Nothing here die()s on a refusal.
 *
 * SIGNATURES THAT DIFFER FROM THE FIRST SKETCH
 *  - t12c_auth_append(b, nHandleBytes, s, cont, corrupt) covers AUTH1.  The general form is
 *    t12c_auth_append_at(b, nHandleBytes, paramEnd, s, cont, corrupt, keepOdd): paramEnd = offset of the first trailer
 *    (the digest covers ordinal || b[10+nHandleBytes .. paramEnd)); keepOdd=1 uses s->nonceOdd as it is (needed when
 *    nonceOdd also keys an ADIP encryption, TPM_CreateWrapKey).  For AUTH2 call it twice with the same paramEnd.
 *  - Wrappers of owner/entity authorized commands take `T12cSess *s`: a live session of the caller (continued), or NULL
 *    = a temporary OIAP session is opened, used with continueAuthSession=0, and explicitly terminated when the command
 *    failed.  ADIP commands (NV_DefineSpace, CreateCounter, CreateWrapKey) always open their own OSAP session (the TPM
 *    closes it).  `corrupt`: 0 none, 1 flip one bit of the HMAC, 2 stale nonceEven (zeros), 3 wrong secret.
 *    `verified` (may be NULL): 1 response HMAC good, 0 bad, -1 no/unparsable trailer (e.g. the command failed).
 *  - When a command fails the TPM terminates the session (unless the request did not parse): the wrappers clear s->live.
 *  - t12c_create_wrap_key takes the key usage (T12C_KEY_STORAGE / T12C_KEY_SIGNING); t12c_establish_transport_attr takes
 *    the transAttributes (LOG / EXCLUSIVE); t12c_take_ownership_x has corrupt/verified; t12c_nv_lock sets nvLocked.
 *  - Commands wrapped for t12c_execute_transport are built by the caller in a second Buf (t12_begin, parameters,
 *    t12c_auth_append for AUTH1, then b_put32(ib, 2, ib->n)); an inner AUTH1 answer is checked with t12c_auth_verify(inner_out...).
 *
 * FACTS TAKEN FROM THE CODE (they differ from folklore)
 *  - TPM_KH_TRANSPORT is 0x40000003 (0x40000004 is TPM_KH_OPERATOR); TPM_ALG_MGF1 is 7.
 *  - With TPM_PERMANENT_FLAGS.nvLocked FALSE (the default) NV_ReadValue/NV_WriteValue do not check the owner HMAC at
 *    all: call t12c_nv_lock() first if authorization is to matter.  NV_DefineSpace(AUTH1) always checks it.
 *  - TPM_MIN_AUTH_SESSIONS and TPM_MIN_TRANS_SESSIONS are 3: do not leak sessions.  More than TPM_LOCKOUT_THRESHOLD (5)
 *    failed authorizations per boot start the dictionary-attack timeout (TPM_DEFEND_LOCK_RUNNING 0x803).
 *  - ExecuteTransport: DATAw of the wrapped command starts at 10 + inputHandleSize(ordinal table), see t12c_in_handles().
 *  - OAEP: by default the padding (SHA-1, MGF1-SHA1, label "TCPA") is done here with seeds from rnd64() so that histories
 *    replay bit for bit, and EVP_PKEY_encrypt runs with RSA_NO_PADDING; -DT12C_OAEP_OPENSSL lets OpenSSL pad (random).
 * Nothing was unreachable in this build. */
#ifndef VERIF_T12_CLIENT_H
#define VERIF_T12_CLIENT_H
#include <openssl/rsa.h>
#include <openssl/bn.h>
#include <openssl/core_names.h>
#include <openssl/param_build.h>

typedef Rsp (*T12cRun)(Buf *b, const char *label);
static T12cRun t12c_run;
typedef struct { uint32_t handle; uint8_t nonceEven[20]; uint8_t nonceOdd[20]; uint8_t secret[20];   /* HMAC key: entity secret (OIAP) or OSAP shared secret */
                 uint8_t nonceEvenOSAP[20]; int osap; int live; uint16_t et; uint32_t ev;
                 uint8_t entSecret[20], nonceOddOSAP[20];      /* OSAP: what the shared secret was derived from */ } T12cSess;
/* what the last authorized request / its answer carried, for a judge that recomputes the HMACs itself (Lean): the TRUE key
 * and nonceEven of the session, and the bytes as they were SENT (after any deliberate corruption) */
typedef struct { int have_req, have_rsp, osap, corrupt; uint8_t key[20], es[20], neo[20], noo[20], ne[20], no[20], cont, mac[20];
                 uint8_t pd[6200]; uint32_t pdlen; uint8_t rne[20], rcont, rmac[20]; uint8_t rpd[6200]; uint32_t rpdlen; } T12cAuthLog;
static T12cAuthLog g12c_log;
typedef struct { int have_ek, have_owner; uint8_t ek_n[256]; uint32_t ek_e; uint8_t ownerAuth[20], srkAuth[20]; } T12cWorld;
static T12cWorld g12c;

#define T12C_BAD 0xFFFFFFFFu
#define T12C_RC_AUTHFAIL 0x01
#define T12C_RC_DISABLED_CMD 0x08
#define T12C_RC_DEFEND_LOCK_RUNNING 0x803
#define T12C_ORD_TakeOwnership 0x0D
#define T12C_ORD_CreateWrapKey 0x1F
#define T12C_ORD_OwnerClear 0x5B
#define T12C_ORD_NV_WriteValueAuth 0xCE
#define T12C_ORD_NV_ReadValueAuth 0xD0
#define T12C_ORD_CreateCounter 0xDC
#define T12C_ORD_IncrementCounter 0xDD
#define T12C_ORD_ReleaseCounter 0xDF
#define T12C_ORD_ReleaseCounterOwner 0xE0
#define T12C_ORD_ExecuteTransport 0xE7
#define T12C_KH_SRK 0x40000000u
#define T12C_KH_OWNER 0x40000001u
#define T12C_KH_TRANSPORT 0x40000003u
#define T12C_ET_KEYHANDLE 0x0001
#define T12C_ET_OWNER 0x0002
#define T12C_ET_COUNTER 0x000A
#define T12C_ET_NV 0x000B
#define T12C_KEY_SIGNING 0x0010
#define T12C_KEY_STORAGE 0x0011
#define T12C_NV_OWNERWRITE 0x00000002u
#define T12C_NV_AUTHWRITE 0x00000004u
#define T12C_NV_OWNERREAD 0x00020000u
#define T12C_NV_AUTHREAD 0x00040000u
#define T12C_TRANSPORT_LOG 0x00000002u
#define T12C_TRANSPORT_EXCLUSIVE 0x00000004u

/* ---------- hashing ---------- */
static void t12c_rand(uint8_t *p, size_t n) { for (size_t i = 0; i < n; i++) p[i] = (uint8_t)rnd64(); }
static void t12c_sha1_3(uint8_t out[20], const void *a, size_t an, const void *b, size_t bn, const void *c, size_t cn) {
    EVP_MD_CTX *m = EVP_MD_CTX_new(); unsigned int l = 20;
    EVP_DigestInit_ex(m, EVP_sha1(), NULL);
    if (an) EVP_DigestUpdate(m, a, an);
    if (bn) EVP_DigestUpdate(m, b, bn);
    if (cn) EVP_DigestUpdate(m, c, cn);
    EVP_DigestFinal_ex(m, out, &l); EVP_MD_CTX_free(m);
}
static void t12c_hmac(uint8_t out[20], const uint8_t key[20], const void *d, size_t n) {
    unsigned int l = 20; HMAC(EVP_sha1(), key, 20, d, n, out, &l);
}
/* the "below the line" HMAC: key over digest || nonceEven || nonceOdd || continue */
static void t12c_authmac(uint8_t out[20], const uint8_t key[20], const uint8_t dig[20], const uint8_t even[20], const uint8_t odd[20], uint8_t cont) {
    uint8_t m[61]; memcpy(m, dig, 20); memcpy(m + 20, even, 20); memcpy(m + 40, odd, 20); m[60] = cont;
    t12c_hmac(out, key, m, 61);
}
/* ADIP with XOR: out = auth XOR SHA1(sharedSecret || nonce)   (nonce = nonceEven, or nonceOdd for the second secret) */
static void t12c_adip(uint8_t out[20], const T12cSess *s, const uint8_t nonce[20], const uint8_t auth[20]) {
    uint8_t x[20]; t12c_sha1_3(x, s->secret, 20, nonce, 20, NULL, 0);
    for (int i = 0; i < 20; i++) out[i] = auth[i] ^ x[i];
}

/* ---------- RSAES-OAEP (SHA-1, MGF1-SHA1, label "TCPA") under the EK ---------- */
static void t12c_mgf1_xor(uint8_t *dst, size_t n, const uint8_t *seed, size_t sn) {
    for (uint32_t c = 0, off = 0; off < n; c++) {
        uint8_t cb[4] = { c >> 24, c >> 16, c >> 8, c }, h[20];
        t12c_sha1_3(h, seed, sn, cb, 4, NULL, 0);
        for (int i = 0; i < 20 && off < n; i++) dst[off++] ^= h[i];
    }
}
static int t12c_oaep_ek(uint8_t out[256], const uint8_t *msg, size_t mlen) {
    int ok = 0; size_t outl = 256;
    if (!g12c.have_ek || mlen > 256 - 42) return 0;
    BIGNUM *n = BN_bin2bn(g12c.ek_n, 256, NULL), *e = BN_new(); BN_set_word(e, g12c.ek_e);
    OSSL_PARAM_BLD *bld = OSSL_PARAM_BLD_new(); OSSL_PARAM *params = NULL; EVP_PKEY *pk = NULL; EVP_PKEY_CTX *kc = NULL, *ec = NULL;
    OSSL_PARAM_BLD_push_BN(bld, OSSL_PKEY_PARAM_RSA_N, n); OSSL_PARAM_BLD_push_BN(bld, OSSL_PKEY_PARAM_RSA_E, e);
    params = OSSL_PARAM_BLD_to_param(bld);
    kc = EVP_PKEY_CTX_new_from_name(NULL, "RSA", NULL);
    if (!kc || EVP_PKEY_fromdata_init(kc) <= 0 || EVP_PKEY_fromdata(kc, &pk, EVP_PKEY_PUBLIC_KEY, params) <= 0) goto done;
    ec = EVP_PKEY_CTX_new(pk, NULL);
    if (!ec || EVP_PKEY_encrypt_init(ec) <= 0) goto done;
#ifdef T12C_OAEP_OPENSSL
    { unsigned char *lab = OPENSSL_malloc(4); memcpy(lab, "TCPA", 4);
      if (EVP_PKEY_CTX_set_rsa_padding(ec, RSA_PKCS1_OAEP_PADDING) <= 0 || EVP_PKEY_CTX_set_rsa_oaep_md(ec, EVP_sha1()) <= 0 ||
          EVP_PKEY_CTX_set_rsa_mgf1_md(ec, EVP_sha1()) <= 0 || EVP_PKEY_CTX_set0_rsa_oaep_label(ec, lab, 4) <= 0) { goto done; }
      ok = EVP_PKEY_encrypt(ec, out, &outl, msg, mlen) > 0 && outl == 256; }
#else
    { uint8_t em[256], *seed = em + 1, *db = em + 21; const size_t dbl = 235;
      memset(em, 0, sizeof em);
      t12c_sha1_3(db, "TCPA", 4, NULL, 0, NULL, 0);                 /* lHash || PS || 01 || M */
      db[dbl - mlen - 1] = 1; memcpy(db + dbl - mlen, msg, mlen);
      t12c_rand(seed, 20);
      t12c_mgf1_xor(db, dbl, seed, 20); t12c_mgf1_xor(seed, 20, db, dbl);
      if (EVP_PKEY_CTX_set_rsa_padding(ec, RSA_NO_PADDING) <= 0) goto done;
      ok = EVP_PKEY_encrypt(ec, out, &outl, em, 256) > 0 && outl == 256; }
#endif
done:
    EVP_PKEY_CTX_free(ec); EVP_PKEY_free(pk); EVP_PKEY_CTX_free(kc); OSSL_PARAM_free(params); OSSL_PARAM_BLD_free(bld); BN_free(n); BN_free(e);
    return ok;
}

/* ---------- endorsement key ---------- */
/* TPM_PUBKEY at r->p + 10: algId(4) enc(2) sig(2) parmSize(4) [keyLength(4) numPrimes(4) expSize(4) exp] keyLength(4) key */
static uint32_t t12c_parse_pubek(const Rsp *r) {
    Rd rd = { r->p, r->len, 10, 0 };
    r_u32(&rd); r_u16(&rd); r_u16(&rd);
    uint32_t ps = r_u32(&rd); size_t pend = rd.off + ps;
    r_u32(&rd); r_u32(&rd);
    uint32_t es = r_u32(&rd), e = 65537;
    if (es > 4) return T12C_BAD;
    if (es) { e = 0; const uint8_t *q = r_bytes(&rd, es); if (!rd.err) for (uint32_t i = 0; i < es; i++) e = (e << 8) | q[i]; }
    if (rd.err || rd.off != pend) return T12C_BAD;
    uint32_t kl = r_u32(&rd); const uint8_t *k = r_bytes(&rd, kl);
    if (rd.err || kl != 256) return T12C_BAD;
    memcpy(g12c.ek_n, k, 256); g12c.ek_e = e; g12c.have_ek = 1;
    return 0;
}
static uint32_t t12c_create_ek(Buf *b) {
    t12_begin(b, T12_TAG0, 0x78); { uint8_t ar[20]; t12c_rand(ar, 20); b_bytes(b, ar, 20); }
    b_u32(b, 1); b_u16(b, 3); b_u16(b, 1); b_u32(b, 12); b_u32(b, 2048); b_u32(b, 2); b_u32(b, 0);
    Rsp r = t12c_run(b, "CreateEndorsementKeyPair");
    if (r.rc == T12C_RC_DISABLED_CMD) {                         /* an EK exists: read it (works until an owner is installed) */
        t12_begin(b, T12_TAG0, 0x7C); { uint8_t ar[20]; t12c_rand(ar, 20); b_bytes(b, ar, 20); }
        r = t12c_run(b, "ReadPubek");
    }
    if (r.rc != 0) return r.rc;
    return t12c_parse_pubek(&r);
}

/* ---------- sessions ---------- */
static uint32_t t12c_oiap(Buf *b, T12cSess *s) {
    memset(s, 0, sizeof *s);
    t12_begin(b, T12_TAG0, 0x0A);
    Rsp r = t12c_run(b, "OIAP");
    if (r.rc != 0) return r.rc;
    if (r.len != 34) return T12C_BAD;
    s->handle = g32(r.p + 10); memcpy(s->nonceEven, r.p + 14, 20); s->live = 1;
    return 0;
}
static uint32_t t12c_osap(Buf *b, T12cSess *s, uint16_t entityType, uint32_t entityValue, const uint8_t entitySecret[20]) {
    uint8_t oddOSAP[20], m[40];
    memset(s, 0, sizeof *s); s->osap = 1; s->et = entityType; s->ev = entityValue;
    t12c_rand(oddOSAP, 20);
    t12_begin(b, T12_TAG0, 0x0B); b_u16(b, entityType); b_u32(b, entityValue); b_bytes(b, oddOSAP, 20);
    Rsp r = t12c_run(b, "OSAP");
    if (r.rc != 0) return r.rc;
    if (r.len != 54) return T12C_BAD;
    s->handle = g32(r.p + 10); memcpy(s->nonceEven, r.p + 14, 20); memcpy(s->nonceEvenOSAP, r.p + 34, 20);
    memcpy(m, s->nonceEvenOSAP, 20); memcpy(m + 20, oddOSAP, 20);
    memcpy(s->entSecret, entitySecret, 20); memcpy(s->nonceOddOSAP, oddOSAP, 20);
    t12c_hmac(s->secret, entitySecret, m, 40); s->live = 1;
    return 0;
}
static uint32_t t12c_terminate_handle(Buf *b, uint32_t handle) {
    t12_begin(b, T12_TAG0, 0x96); b_u32(b, handle); Rsp r = t12c_run(b, "Terminate_Handle"); return r.rc;
}
static uint32_t t12c_flush_specific(Buf *b, uint32_t handle, uint32_t resourceType) {
    t12_begin(b, T12_TAG0, 0xBA); b_u32(b, handle); b_u32(b, resourceType); Rsp r = t12c_run(b, "FlushSpecific"); return r.rc;
}

/* ---------- authorization trailers ---------- */
static void t12c_auth_append_at(Buf *b, int nHandleBytes, size_t paramEnd, T12cSess *s, int continueSession, int corrupt, int keepOdd) {
    /* corrupt: 0 none, 1 one bit of the HMAC flipped, 2 stale nonceEven (zeros), 3 wrong secret, 4 continueAuthSession flipped after
       the HMAC was computed, 5 the last parameter byte altered after the HMAC was computed (1 when there is no parameter) */
    uint8_t dig[20], mac[20], key[20], zero[20] = {0};
    size_t ps = 10 + (size_t)nHandleBytes;
    if (paramEnd > b->n) paramEnd = b->n;
    int first = (paramEnd == b->n);                               /* the first trailer of the command */
    if (corrupt == 5 && !(ps < paramEnd)) corrupt = 1;
    t12c_sha1_3(dig, b->p + 6, 4, b->p + (ps <= paramEnd ? ps : paramEnd), ps <= paramEnd ? paramEnd - ps : 0, NULL, 0);
    if (!keepOdd) t12c_rand(s->nonceOdd, 20);
    memcpy(key, s->secret, 20); if (corrupt == 3) key[0] ^= 0x80;
    t12c_authmac(mac, key, dig, corrupt == 2 ? zero : s->nonceEven, s->nonceOdd, continueSession ? 1 : 0);
    if (corrupt == 1) mac[rnd(20)] ^= (uint8_t)(1u << rnd(8));
    if (corrupt == 4) continueSession = !continueSession;
    if (corrupt == 5) b->p[paramEnd - 1] ^= 0x01;
    if (first) {
        T12cAuthLog *g = &g12c_log; memset(g, 0, sizeof *g);
        g->have_req = 1; g->osap = s->osap; g->corrupt = corrupt;
        memcpy(g->key, s->secret, 20); memcpy(g->es, s->entSecret, 20); memcpy(g->neo, s->nonceEvenOSAP, 20); memcpy(g->noo, s->nonceOddOSAP, 20);
        memcpy(g->ne, s->nonceEven, 20); memcpy(g->no, s->nonceOdd, 20); g->cont = continueSession ? 1 : 0; memcpy(g->mac, mac, 20);
        size_t n = ps <= paramEnd ? paramEnd - ps : 0; if (n > sizeof g->pd - 4) n = sizeof g->pd - 4;
        memcpy(g->pd, b->p + 6, 4); memcpy(g->pd + 4, b->p + ps, n); g->pdlen = (uint32_t)(4 + n);
    }
    b_u32(b, s->handle); b_bytes(b, s->nonceOdd, 20); b_u8(b, continueSession ? 1 : 0); b_bytes(b, mac, 20);
}
static void t12c_auth_append(Buf *b, int nHandleBytes, T12cSess *s, int continueSession, int corrupt) {
    t12c_auth_append_at(b, nHandleBytes, b->n, s, continueSession, corrupt, 0);
}
/* response: hdr(10) | outHandles | outParams | nSessions x (nonceEven(20) continue(1) resAuth(20)); `which` is 0-based */
static int t12c_auth_verify(const Rsp *r, uint32_t ordinal, int nOutHandleBytes, T12cSess *s, int nSessions, int which) {
    size_t start = 10 + (size_t)nOutHandleBytes, tl = 41 * (size_t)nSessions;
    if (r->len < 10 || r->size != r->len || r->rc != 0 || r->tag != (nSessions == 2 ? 0xC6 : 0xC5) || r->len < start + tl || which >= nSessions) return -1;
    size_t end = r->len - tl; const uint8_t *t = r->p + end + 41 * (size_t)which;
    uint8_t hd[8], dig[20], mac[20];
    memcpy(hd, r->p + 6, 4); hd[4] = ordinal >> 24; hd[5] = ordinal >> 16; hd[6] = ordinal >> 8; hd[7] = ordinal;
    t12c_sha1_3(dig, hd, 8, r->p + start, end - start, NULL, 0);
    t12c_authmac(mac, s->secret, dig, t, s->nonceOdd, t[20]);
    if (which == 0) {
        T12cAuthLog *g = &g12c_log; size_t n = end - start; if (n > sizeof g->rpd - 8) n = sizeof g->rpd - 8;
        g->have_rsp = 1; memcpy(g->rne, t, 20); g->rcont = t[20]; memcpy(g->rmac, t + 21, 20);
        memcpy(g->rpd, hd, 8); memcpy(g->rpd + 8, r->p + start, n); g->rpdlen = (uint32_t)(8 + n);
    }
    memcpy(s->nonceEven, t, 20);
    if (!t[20]) s->live = 0;
    return memcmp(mac, t + 21, 20) == 0;
}
/* session to use for an AUTH1 command: the caller's when live, else a new OIAP in *s (or *tmp when s is NULL) */
static T12cSess *t12c_sess(Buf *b, T12cSess *s, T12cSess *tmp) {
    if (s && s->live) return s;
    T12cSess *u = s ? s : tmp;
    return t12c_oiap(b, u) == 0 ? u : NULL;
}
/* the command (tag AUTH1) is complete in b up to its parameters: append the trailer, run, verify */
static uint32_t t12c_finish1(Buf *b, const char *label, int nIn, int nOut, T12cSess *s, const uint8_t *key, int cont, int corrupt, int keepOdd, Rsp *out, int *verified) {
    uint32_t ord = g32(b->p + 6); int v = -1;
    if (key && !s->osap) memcpy(s->secret, key, 20);
    t12c_auth_append_at(b, nIn, b->n, s, cont, corrupt, keepOdd);
    Rsp r = t12c_run(b, label);
    if (r.rc == 0) v = t12c_auth_verify(&r, ord, nOut, s, 1, 0);
    else if (r.rc != T12C_RC_DEFEND_LOCK_RUNNING) s->live = 0;
    if (!cont && r.rc != 0 && r.rc != T12C_BAD) {               /* temporary session: make sure it is gone (this overwrites the answer) */
        Buf tb = {0}; t12c_terminate_handle(&tb, s->handle); b_free(&tb);
        r.p = NULL; r.len = 0;
    }
    if (verified) *verified = v; if (out) *out = r;
    return r.rc;
}

/* ---------- TPM_KEY12 request (no PCR info, no public key, no encData) ---------- */
static void t12c_key12(Buf *b, uint16_t usage, uint32_t flags, uint8_t authUsage, uint16_t enc, uint16_t sig) {
    b_u16(b, 0x0028); b_u16(b, 0); b_u16(b, usage); b_u32(b, flags); b_u8(b, authUsage);
    b_u32(b, 1); b_u16(b, enc); b_u16(b, sig); b_u32(b, 12); b_u32(b, 2048); b_u32(b, 2); b_u32(b, 0);
    b_u32(b, 0); b_u32(b, 0); b_u32(b, 0);
}

/* ---------- TPM_TakeOwnership: OIAP, secrets OAEP-encrypted under the EK, HMAC keyed with the NEW owner secret ---------- */
static uint32_t t12c_take_ownership_x(Buf *b, const uint8_t owner[20], const uint8_t srk[20], int corrupt, int *verified) {
    uint8_t eo[256], es[256]; T12cSess s;
    if (verified) *verified = -1;
    if (!t12c_oaep_ek(eo, owner, 20) || !t12c_oaep_ek(es, srk, 20)) return T12C_BAD;
    uint32_t rc = t12c_oiap(b, &s); if (rc) return rc;
    t12_begin(b, T12_TAG1, T12C_ORD_TakeOwnership); b_u16(b, 5);
    b_u32(b, 256); b_bytes(b, eo, 256); b_u32(b, 256); b_bytes(b, es, 256);
    t12c_key12(b, 0x0011, 0, 1, 0x0003, 0x0001);                /* storage key, TPM_AUTH_ALWAYS, OAEP, no signature scheme */
    int v; rc = t12c_finish1(b, "TakeOwnership", 0, 0, &s, owner, 0, corrupt, 0, NULL, &v);
    if (verified) *verified = v;
    if (rc == 0) { g12c.have_owner = 1; memcpy(g12c.ownerAuth, owner, 20); memcpy(g12c.srkAuth, srk, 20); }
    return rc;
}
static uint32_t t12c_take_ownership(Buf *b, const uint8_t owner[20], const uint8_t srk[20]) {
    int v; uint32_t rc = t12c_take_ownership_x(b, owner, srk, 0, &v);
    return rc == 0 && v != 1 ? T12C_BAD : rc;
}
static uint32_t t12c_owner_clear(Buf *b, T12cSess *s, int corrupt, int *verified) {
    T12cSess tmp; T12cSess *u = t12c_sess(b, s, &tmp); if (verified) *verified = -1; if (!u) return T12C_BAD;
    t12_begin(b, T12_TAG1, T12C_ORD_OwnerClear);
    uint32_t rc = t12c_finish1(b, "OwnerClear", 0, 0, u, g12c.ownerAuth, s != NULL, corrupt, 0, NULL, verified);
    if (rc == 0) { g12c.have_owner = 0; u->live = 0; }             /* the TPM drops every session on OwnerClear */
    return rc;
}

/* ---------- NV ---------- */
static void t12c_nv_public(Buf *b, uint32_t idx, uint32_t attrs, uint32_t size) {
    b_u16(b, 0x0018); b_u32(b, idx);
    for (int k = 0; k < 2; k++) { b_u16(b, 3); b_u8(b, 0); b_u8(b, 0); b_u8(b, 0); b_u8(b, 0x1f); for (int i = 0; i < 20; i++) b_u8(b, 0); }
    b_u16(b, 0x0017); b_u32(b, attrs); b_u8(b, 0); b_u8(b, 0); b_u8(b, 0); b_u32(b, size);
}
/* TPM_NV_DefineSpace(TPM_NV_INDEX_LOCK, size 0) without authorization: sets nvLocked (from then on NV authorization is enforced) */
static uint32_t t12c_nv_lock(Buf *b) {
    t12_begin(b, T12_TAG0, 0xCC); t12c_nv_public(b, 0xFFFFFFFFu, 0, 0); for (int i = 0; i < 20; i++) b_u8(b, 0);
    Rsp r = t12c_run(b, "NV_DefineSpace(lock)"); return r.rc;
}
/* size 0 deletes the area.  OSAP(owner) + ADIP: the TPM closes the session */
static uint32_t t12c_nv_define_owner(Buf *b, uint32_t idx, uint32_t attrs, uint32_t size, const uint8_t areaAuth[20], int corrupt, int *verified) {
    T12cSess s; uint8_t enc[20]; if (verified) *verified = -1;
    uint32_t rc = t12c_osap(b, &s, T12C_ET_OWNER, T12C_KH_OWNER, g12c.ownerAuth); if (rc) return rc;
    t12c_adip(enc, &s, s.nonceEven, areaAuth);
    t12_begin(b, T12_TAG1, 0xCC); t12c_nv_public(b, idx, attrs, size); b_bytes(b, enc, 20);
    return t12c_finish1(b, "NV_DefineSpace", 0, 0, &s, NULL, 0, corrupt, 0, NULL, verified);
}
static uint32_t t12c_nv_write_x(Buf *b, uint32_t ord, const char *label, T12cSess *s, const uint8_t *key, uint32_t idx, uint32_t off, const uint8_t *d, uint32_t n, int corrupt, int *verified) {
    T12cSess tmp; T12cSess *u = t12c_sess(b, s, &tmp); if (verified) *verified = -1; if (!u) return T12C_BAD;
    t12_begin(b, T12_TAG1, ord); b_u32(b, idx); b_u32(b, off); b_u32(b, n); b_bytes(b, d, n);
    return t12c_finish1(b, label, 0, 0, u, key, s != NULL, corrupt, 0, NULL, verified);
}
/* *data points into the response buffer (valid until the next command); it is NULL when the command failed */
static uint32_t t12c_nv_read_x(Buf *b, uint32_t ord, const char *label, T12cSess *s, const uint8_t *key, uint32_t idx, uint32_t off, uint32_t n, const uint8_t **data, uint32_t *dlen, int corrupt, int *verified) {
    T12cSess tmp; T12cSess *u = t12c_sess(b, s, &tmp); Rsp r; if (verified) *verified = -1; if (data) *data = NULL; if (dlen) *dlen = 0; if (!u) return T12C_BAD;
    t12_begin(b, T12_TAG1, ord); b_u32(b, idx); b_u32(b, off); b_u32(b, n);
    uint32_t rc = t12c_finish1(b, label, 0, 0, u, key, s != NULL, corrupt, 0, &r, verified);
    if (rc) return rc;
    if (r.len < 14 + 41 || g32(r.p + 10) != r.len - 14 - 41) return T12C_BAD;
    if (data) *data = r.p + 14; if (dlen) *dlen = g32(r.p + 10);
    return 0;
}
static uint32_t t12c_nv_write_owner(Buf *b, T12cSess *s, uint32_t idx, uint32_t off, const uint8_t *d, uint32_t n, int corrupt, int *verified) {
    return t12c_nv_write_x(b, 0xCD, "NV_WriteValue", s, g12c.ownerAuth, idx, off, d, n, corrupt, verified);
}
static uint32_t t12c_nv_read_owner(Buf *b, T12cSess *s, uint32_t idx, uint32_t off, uint32_t n, const uint8_t **data, uint32_t *dlen, int corrupt, int *verified) {
    return t12c_nv_read_x(b, 0xCF, "NV_ReadValue", s, g12c.ownerAuth, idx, off, n, data, dlen, corrupt, verified);
}
/* with the area's own authValue; an OSAP session must have been opened with (T12C_ET_NV, idx, areaAuth) */
static uint32_t t12c_nv_write_auth(Buf *b, T12cSess *s, const uint8_t areaAuth[20], uint32_t idx, uint32_t off, const uint8_t *d, uint32_t n, int corrupt, int *verified) {
    return t12c_nv_write_x(b, T12C_ORD_NV_WriteValueAuth, "NV_WriteValueAuth", s, areaAuth, idx, off, d, n, corrupt, verified);
}
static uint32_t t12c_nv_read_auth(Buf *b, T12cSess *s, const uint8_t areaAuth[20], uint32_t idx, uint32_t off, uint32_t n, const uint8_t **data, uint32_t *dlen, int corrupt, int *verified) {
    return t12c_nv_read_x(b, T12C_ORD_NV_ReadValueAuth, "NV_ReadValueAuth", s, areaAuth, idx, off, n, data, dlen, corrupt, verified);
}

/* ---------- monotonic counters (TPM_COUNTER_VALUE public part: tag(2) label(4) counter(4)) ---------- */
static uint32_t t12c_counter_create(Buf *b, const uint8_t auth[20], const uint8_t label[4], uint32_t *countID, uint32_t *value, int corrupt, int *verified) {
    T12cSess s; uint8_t enc[20]; Rsp r; if (verified) *verified = -1;
    uint32_t rc = t12c_osap(b, &s, T12C_ET_OWNER, T12C_KH_OWNER, g12c.ownerAuth); if (rc) return rc;
    t12c_adip(enc, &s, s.nonceEven, auth);
    t12_begin(b, T12_TAG1, T12C_ORD_CreateCounter); b_bytes(b, enc, 20); b_bytes(b, label, 4);
    rc = t12c_finish1(b, "CreateCounter", 0, 0, &s, NULL, 0, corrupt, 0, &r, verified);
    if (rc) return rc;
    if (r.len != 10 + 14 + 41) return T12C_BAD;
    if (countID) *countID = g32(r.p + 10); if (value) *value = g32(r.p + 20);
    return 0;
}
/* an OSAP session must have been opened with (T12C_ET_COUNTER, countID, auth) */
static uint32_t t12c_counter_increment(Buf *b, T12cSess *s, uint32_t countID, const uint8_t auth[20], uint32_t *value, int corrupt, int *verified) {
    T12cSess tmp; T12cSess *u = t12c_sess(b, s, &tmp); Rsp r; if (verified) *verified = -1; if (!u) return T12C_BAD;
    t12_begin(b, T12_TAG1, T12C_ORD_IncrementCounter); b_u32(b, countID);
    uint32_t rc = t12c_finish1(b, "IncrementCounter", 0, 0, u, auth, s != NULL, corrupt, 0, &r, verified);
    if (rc) return rc;
    if (r.len != 10 + 10 + 41) return T12C_BAD;
    if (value) *value = g32(r.p + 16);
    return 0;
}
static uint32_t t12c_counter_read(Buf *b, uint32_t countID, uint32_t *value) {
    t12_begin(b, T12_TAG0, 0xDE); b_u32(b, countID);
    Rsp r = t12c_run(b, "ReadCounter");
    if (r.rc) return r.rc;
    if (r.len != 20) return T12C_BAD;
    if (value) *value = g32(r.p + 16);
    return 0;
}
static uint32_t t12c_counter_release(Buf *b, T12cSess *s, uint32_t countID, const uint8_t auth[20], int corrupt, int *verified) {
    T12cSess tmp; T12cSess *u = t12c_sess(b, s, &tmp); if (verified) *verified = -1; if (!u) return T12C_BAD;
    t12_begin(b, T12_TAG1, T12C_ORD_ReleaseCounter); b_u32(b, countID);
    return t12c_finish1(b, "ReleaseCounter", 0, 0, u, auth, s != NULL, corrupt, 0, NULL, verified);
}
static uint32_t t12c_counter_release_owner(Buf *b, T12cSess *s, uint32_t countID, int corrupt, int *verified) {
    T12cSess tmp; T12cSess *u = t12c_sess(b, s, &tmp); if (verified) *verified = -1; if (!u) return T12C_BAD;
    t12_begin(b, T12_TAG1, T12C_ORD_ReleaseCounterOwner); b_u32(b, countID);
    return t12c_finish1(b, "ReleaseCounterOwner", 0, 0, u, g12c.ownerAuth, s != NULL, corrupt, 0, NULL, verified);
}

/* ---------- keys under the SRK ---------- */
/* RSA-2048 non-migratable key with usageAuth = keyAuth; usage T12C_KEY_STORAGE (OAEP) or T12C_KEY_SIGNING (PKCS1v15-SHA1);
 * *blob is malloc()ed (the TPM_KEY12 to hand to LoadKey2) */
static uint32_t t12c_create_wrap_key(Buf *b, uint16_t usage, const uint8_t keyAuth[20], uint8_t **blob, uint32_t *bloblen, int corrupt, int *verified) {
    T12cSess s; uint8_t eu[20], em[20]; Rsp r; if (verified) *verified = -1; if (blob) *blob = NULL; if (bloblen) *bloblen = 0;
    uint32_t rc = t12c_osap(b, &s, T12C_ET_KEYHANDLE, T12C_KH_SRK, g12c.srkAuth); if (rc) return rc;
    t12c_rand(s.nonceOdd, 20);                                   /* nonceOdd keys the second ADIP secret: fixed before the parameters */
    t12c_adip(eu, &s, s.nonceEven, keyAuth); t12c_adip(em, &s, s.nonceOdd, keyAuth);
    t12_begin(b, T12_TAG1, T12C_ORD_CreateWrapKey); b_u32(b, T12C_KH_SRK); b_bytes(b, eu, 20); b_bytes(b, em, 20);
    t12c_key12(b, usage, 0, 1, usage == T12C_KEY_SIGNING ? 0x0001 : 0x0003, usage == T12C_KEY_SIGNING ? 0x0002 : 0x0001);
    rc = t12c_finish1(b, "CreateWrapKey", 4, 0, &s, NULL, 0, corrupt, 1, &r, verified);
    if (rc) return rc;
    if (r.len < 10 + 41 + 20) return T12C_BAD;
    uint32_t n = r.len - 10 - 41;
    if (blob) { *blob = malloc(n); memcpy(*blob, r.p + 10, n); } if (bloblen) *bloblen = n;
    return 0;
}
static uint32_t t12c_load_key2(Buf *b, T12cSess *s, const uint8_t *blob, uint32_t len, uint32_t *handle, int corrupt, int *verified) {
    T12cSess tmp; T12cSess *u = t12c_sess(b, s, &tmp); Rsp r; if (verified) *verified = -1; if (!u) return T12C_BAD;
    t12_begin(b, T12_TAG1, 0x41); b_u32(b, T12C_KH_SRK); b_bytes(b, blob, len);
    uint32_t rc = t12c_finish1(b, "LoadKey2", 4, 4, u, g12c.srkAuth, s != NULL, corrupt, 0, &r, verified);
    if (rc) return rc;
    if (r.len != 10 + 4 + 41) return T12C_BAD;
    if (handle) *handle = g32(r.p + 10);
    return 0;
}

/* ---------- transport sessions (no encryption, secret in the clear under TPM_KH_TRANSPORT) ---------- */
/* bytes of a wrapped command / response that are NOT part of DATAw (tpm_ordinal_table: inputHandleSize / outputHandleSize) */
static uint32_t t12c_in_handles(uint32_t ord) {
    static const uint8_t four[] = { 0x0c, 0x0e, 0x0f, 0x13, 0x16, 0x17, 0x18, 0x1b, 0x1e, 0x1f, 0x20, 0x21, 0x22, 0x23, 0x24, 0x25, 0x28, 0x29, 0x2a,
        0x31, 0x3c, 0x3d, 0x3e, 0x41, 0x52, 0x7a, 0x86, 0x96, 0x9a, 0xb4, 0xb6, 0xb8, 0xb9, 0xba, 0xd4, 0xe6, 0xf2 };
    if (ord == 0x0b) return 26; if (ord == 0x11) return 30; if (ord == 0x32 || ord == 0x33) return 8;
    for (size_t i = 0; i < sizeof four; i++) if (four[i] == ord) return 4;
    return 0;
}
static uint32_t t12c_out_handles(uint32_t ord) {
    return ord == 0x0a ? 24 : (ord == 0x0b || ord == 0x11) ? 44 : (ord == 0x41 || ord == 0xb5 || ord == 0xb7 || ord == 0xb9) ? 4 : 0;
}
/* attrs: 0, T12C_TRANSPORT_LOG and/or T12C_TRANSPORT_EXCLUSIVE (TPM_TRANSPORT_ENCRYPT is refused under TPM_KH_TRANSPORT) */
static uint32_t t12c_establish_transport_attr(Buf *b, T12cSess *trans, uint32_t attrs) {
    memset(trans, 0, sizeof *trans); t12c_rand(trans->secret, 20);
    t12_begin(b, T12_TAG0, 0xE6); b_u32(b, T12C_KH_TRANSPORT);
    b_u16(b, 0x001E); b_u32(b, attrs); b_u32(b, 7); b_u16(b, 1);   /* TPM_ALG_MGF1, TPM_ES_NONE (both unused without ENCRYPT) */
    b_u32(b, 20); b_bytes(b, trans->secret, 20);
    Rsp r = t12c_run(b, "EstablishTransport");
    if (r.rc) return r.rc;
    if (r.len != 10 + 4 + 4 + 32 + 20) return T12C_BAD;
    trans->handle = g32(r.p + 10); memcpy(trans->nonceEven, r.p + 50, 20); trans->live = 1;
    return 0;
}
static uint32_t t12c_establish_transport(Buf *b, T12cSess *trans, int exclusive) {
    return t12c_establish_transport_attr(b, trans, exclusive ? T12C_TRANSPORT_EXCLUSIVE : 0);
}
/* `wrapped` is a complete inner command (its paramSize already set); it may be malformed: the digests are taken over the
 * bytes that exist.  *inner_out points into the response buffer.  *verified is about the OUTER (transport) HMAC. */
static uint32_t t12c_execute_transport(Buf *b, T12cSess *trans, const uint8_t *wrapped, uint32_t wlen, int cont, int corrupt, Rsp *inner_out, int *verified) {
    uint8_t h1[20], dig[20], mac[20], key[20], zero[20] = {0}, hd[8], ordw_b[4] = {0};
    uint16_t tagw = wlen >= 2 ? g16(wrapped) : 0;
    uint32_t ordw = 0; if (wlen >= 10) { ordw = g32(wrapped + 6); memcpy(ordw_b, wrapped + 6, 4); }
    size_t al = tagw == T12_TAG1 ? 45 : tagw == T12_TAG2 ? 90 : 0, ds = 10 + (size_t)t12c_in_handles(ordw);
    size_t de = wlen > al ? wlen - al : 0;
    if (ds > wlen) ds = wlen; if (de < ds) de = ds;
    if (verified) *verified = -1; if (inner_out) { memset(inner_out, 0, sizeof *inner_out); inner_out->rc = T12C_BAD; }
    t12c_sha1_3(h1, ordw_b, 4, wrapped + ds, de - ds, NULL, 0);                       /* H1 = SHA1(ORDw || DATAw) */
    hd[0] = 0; hd[1] = 0; hd[2] = 0; hd[3] = T12C_ORD_ExecuteTransport; hd[4] = wlen >> 24; hd[5] = wlen >> 16; hd[6] = wlen >> 8; hd[7] = wlen;
    t12c_sha1_3(dig, hd, 8, h1, 20, NULL, 0);                                         /* SHA1(ORDet || wrappedCmdSize || H1) */
    t12c_rand(trans->nonceOdd, 20);
    memcpy(key, trans->secret, 20); if (corrupt == 3) key[0] ^= 0x80;
    t12c_authmac(mac, key, dig, corrupt == 2 ? zero : trans->nonceEven, trans->nonceOdd, cont ? 1 : 0);
    if (corrupt == 1) mac[rnd(20)] ^= (uint8_t)(1u << rnd(8));
    t12_begin(b, T12_TAG1, T12C_ORD_ExecuteTransport); b_u32(b, wlen); b_bytes(b, wrapped, wlen);
    b_u32(b, trans->handle); b_bytes(b, trans->nonceOdd, 20); b_u8(b, cont ? 1 : 0); b_bytes(b, mac, 20);
    Rsp r = t12c_run(b, "ExecuteTransport");
    if (r.rc) { if (r.rc != T12C_RC_DEFEND_LOCK_RUNNING) trans->live = 0; return r.rc; }
    /* rc | currentTicks(8) locality(4) wrappedRspSize(4) wrappedRsp | transNonceEven(20) continue(1) transAuth(20) */
    if (r.len < 26 + 41 || r.size != r.len || r.tag != 0xC5) return T12C_BAD;
    uint32_t wsz = g32(r.p + 22);
    if ((size_t)wsz + 26 + 41 != r.len) return T12C_BAD;
    const uint8_t *w = r.p + 26, *t = w + wsz;
    Rsp in; memset(&in, 0, sizeof in); in.p = w; in.len = wsz; in.bufsize = r.bufsize; in.rc = T12C_BAD;
    if (wsz >= 10) { in.tag = g16(w); in.size = g32(w + 2); in.rc = g32(w + 6); }
    if (inner_out) *inner_out = in;
    /* H2 = SHA1(RCw || ORDw || S2), S2 = DATAw of the wrapped response (empty when RCw != 0) */
    size_t s2 = 10 + (size_t)t12c_out_handles(ordw), ral = in.tag == 0xC5 ? 41 : in.tag == 0xC6 ? 82 : 0, e2 = wsz > ral ? wsz - ral : 0;
    uint8_t h2[20], od[44];
    if (in.rc != 0 || s2 > wsz || e2 < s2) { s2 = 0; e2 = 0; }
    memcpy(hd, wsz >= 10 ? w + 6 : zero, 4); memcpy(hd + 4, ordw_b, 4);
    t12c_sha1_3(h2, hd, 8, w + s2, e2 - s2, NULL, 0);
    memcpy(od, r.p + 6, 4); od[4] = 0; od[5] = 0; od[6] = 0; od[7] = T12C_ORD_ExecuteTransport; memcpy(od + 8, r.p + 10, 16); memcpy(od + 24, h2, 20);
    t12c_sha1_3(dig, od, 44, NULL, 0, NULL, 0);            /* SHA1(RCet || ORDet || currentTicks || locality || wrappedRspSize || H2) */
    t12c_authmac(mac, trans->secret, dig, t, trans->nonceOdd, t[20]);
    memcpy(trans->nonceEven, t, 20); if (!t[20]) trans->live = 0;
    if (verified) *verified = memcmp(mac, t + 21, 20) == 0;
    return 0;
}

#ifdef T12C_SELFTEST
/* ---------- self test against the real library (prints PASS/FAIL lines to stderr, returns the number of FAILs) ---------- */
static int t12c_st_fail, t12c_st_verbose;
static Rsp t12c_st_run(Buf *b, const char *label) {
    b_put32(b, 2, (uint32_t)b->n);
    Rsp r = run_raw(b->p, (uint32_t)b->n);
    if (t12c_st_verbose) fprintf(stderr, "    cmd %-26s n=%zu ret=%u rc=0x%x len=%u\n", label, b->n, r.ret, r.rc, r.len);
    return r;
}
#define T12C_CHECK(cond, ...) do { int ok_ = (cond); fprintf(stderr, "%s ", ok_ ? "PASS" : "FAIL"); fprintf(stderr, __VA_ARGS__); fputc('\n', stderr); if (!ok_) t12c_st_fail++; } while (0)
static uint32_t t12c_st_simple(Buf *b, uint32_t ord, int nbytes, uint32_t v, const char *label) {
    t12_begin(b, T12_TAG0, ord); if (nbytes == 2) b_u16(b, (uint16_t)v); else if (nbytes == 4) b_u32(b, v);
    Rsp r = t12c_run(b, label); return r.rc;
}
/* one wrapped command given as raw bytes; re-establishes the transport session when it died */
static uint32_t t12c_st_wrap(Buf *b, T12cSess *tr_, const uint8_t *w, uint32_t n, Rsp *in, int *v) {
    if (!tr_->live) { uint32_t rc = t12c_establish_transport(b, tr_, 0); if (rc) { T12C_CHECK(0, "re-EstablishTransport rc=0x%x", rc); return rc; } }
    return t12c_execute_transport(b, tr_, w, n, 1, 0, in, v);
}
/* TPM_CAP_HANDLE for keys (1), authorization sessions (2), transport sessions (4): nothing may be left open */
static void t12c_st_noleak(Buf *b, const char *when) {
    for (uint32_t rt = 1; rt <= 4; rt <<= 1) {
        t12_begin(b, T12_TAG0, 0x65); b_u32(b, 0x14); b_u32(b, 4); b_u32(b, rt);
        Rsp r = t12c_run(b, "GetCapability(handles)");
        T12C_CHECK(r.rc == 0 && r.len == 16 && g16(r.p + 14) == 0, "no leaked handles of resource type %u %s: rc=0x%x count=%d", rt, when, r.rc, r.len >= 16 ? g16(r.p + 14) : -1);
    }
}
static int t12c_selftest(void) {
    Buf b = {0}, ib = {0}; uint32_t rc, rc2; int v; const uint8_t *d; uint32_t dl;
    uint8_t owner[20], srk[20], aAuth[20], cAuth[20], c2Auth[20], kAuth[20], ekn[256], w1[8] = {1, 2, 3, 4, 5, 6, 7, 8}, w2[8] = {9, 8, 7, 6, 5, 4, 3, 2};
    const uint32_t IO = 0x00011300u, IA = 0x00011301u;
    T12cSess s, so, sn, sc, tr_, is;
    t12c_st_fail = 0; t12c_st_verbose = getenv("T12C_VERBOSE") != NULL;
    t12c_run = t12c_st_run; memset(&g12c, 0, sizeof g12c);
    t12c_rand(owner, 20); t12c_rand(srk, 20); t12c_rand(aAuth, 20); t12c_rand(cAuth, 20); t12c_rand(c2Auth, 20); t12c_rand(kAuth, 20);
    tpm12_fresh();
    rc = t12c_st_simple(&b, 0x99, 2, 1, "Startup(ST_CLEAR)"); T12C_CHECK(rc == 0, "Startup(ST_CLEAR) rc=0x%x", rc);
    rc = t12c_st_simple(&b, 0x4000000Au, 2, 0x20, "PP cmdEnable"); rc2 = t12c_st_simple(&b, 0x4000000Au, 2, 0x08, "PP present");
    T12C_CHECK(rc == 0 && rc2 == 0, "TSC_PhysicalPresence rc=0x%x,0x%x", rc, rc2);
    /* EK + ownership */
    rc = t12c_take_ownership(&b, owner, srk); T12C_CHECK(rc == T12C_BAD, "TakeOwnership without a known EK is not sent (0x%x)", rc);
    rc = t12c_create_ek(&b); T12C_CHECK(rc == 0 && g12c.have_ek && g12c.ek_e == 65537, "CreateEndorsementKeyPair rc=0x%x e=%u n[0]=%02x", rc, g12c.ek_e, g12c.ek_n[0]);
    memcpy(ekn, g12c.ek_n, 256); memset(g12c.ek_n, 0, 256);
    rc = t12c_create_ek(&b); T12C_CHECK(rc == 0 && !memcmp(ekn, g12c.ek_n, 256), "second create_ek falls back to ReadPubek, same modulus rc=0x%x", rc);
    rc = t12c_osap(&b, &so, T12C_ET_OWNER, T12C_KH_OWNER, owner); T12C_CHECK(rc != 0, "OSAP(owner) before ownership refused rc=0x%x", rc);
    rc = t12c_take_ownership_x(&b, owner, srk, 1, &v); T12C_CHECK(rc == T12C_RC_AUTHFAIL && !g12c.have_owner, "TakeOwnership corrupt HMAC rc=0x%x", rc);
    rc = t12c_take_ownership(&b, owner, srk); T12C_CHECK(rc == 0 && g12c.have_owner, "TakeOwnership rc=0x%x (response HMAC under the new owner secret verified)", rc);
    rc = t12c_take_ownership_x(&b, owner, srk, 0, &v); T12C_CHECK(rc == 0x14, "TakeOwnership again: TPM_OWNER_SET rc=0x%x", rc);
    /* NV */
    rc = t12c_nv_lock(&b); T12C_CHECK(rc == 0, "NV_DefineSpace(TPM_NV_INDEX_LOCK) rc=0x%x", rc);
    rc = t12c_nv_define_owner(&b, IO, T12C_NV_OWNERWRITE | T12C_NV_OWNERREAD, 32, aAuth, 1, &v); T12C_CHECK(rc == T12C_RC_AUTHFAIL, "NV_DefineSpace(owner area) corrupt=1 rc=0x%x", rc);
    rc = t12c_nv_define_owner(&b, IO, T12C_NV_OWNERWRITE | T12C_NV_OWNERREAD, 32, aAuth, 0, &v); T12C_CHECK(rc == 0 && v == 1, "NV_DefineSpace(owner area) rc=0x%x verified=%d", rc, v);
    rc = t12c_nv_define_owner(&b, IA, T12C_NV_AUTHWRITE | T12C_NV_AUTHREAD, 16, aAuth, 0, &v); T12C_CHECK(rc == 0 && v == 1, "NV_DefineSpace(auth area) rc=0x%x verified=%d", rc, v);
    memset(&s, 0, sizeof s);
    rc = t12c_nv_write_owner(&b, &s, IO, 0, w1, 8, 0, &v); T12C_CHECK(rc == 0 && v == 1 && s.live, "NV_WriteValue owner/OIAP rc=0x%x verified=%d live=%d", rc, v, s.live);
    rc = t12c_nv_read_owner(&b, &s, IO, 0, 8, &d, &dl, 0, &v); T12C_CHECK(rc == 0 && v == 1 && dl == 8 && !memcmp(d, w1, 8), "NV_ReadValue owner/OIAP (same session) rc=0x%x verified=%d", rc, v);
    rc = t12c_nv_read_owner(&b, &s, IO, 0, 8, &d, &dl, 2, &v); T12C_CHECK(rc == T12C_RC_AUTHFAIL && !s.live, "NV_ReadValue owner corrupt=2 (stale nonceEven) rc=0x%x live=%d", rc, s.live);
    s.live = 1;                                                   /* pretend it were alive: the TPM must have dropped the handle */
    rc = t12c_nv_read_owner(&b, &s, IO, 0, 8, &d, &dl, 0, &v); T12C_CHECK(rc == 0x22, "the session of a failed authorization is gone: TPM_INVALID_AUTHHANDLE rc=0x%x", rc);
    rc = t12c_osap(&b, &so, T12C_ET_OWNER, T12C_KH_OWNER, owner); T12C_CHECK(rc == 0, "OSAP(owner) rc=0x%x", rc);
    rc = t12c_nv_write_owner(&b, &so, IO, 8, w2, 8, 0, &v); T12C_CHECK(rc == 0 && v == 1, "NV_WriteValue owner/OSAP rc=0x%x verified=%d", rc, v);
    rc = t12c_nv_read_owner(&b, &so, IO, 0, 16, &d, &dl, 0, &v); T12C_CHECK(rc == 0 && v == 1 && dl == 16 && !memcmp(d, w1, 8) && !memcmp(d + 8, w2, 8), "NV_ReadValue owner/OSAP rc=0x%x verified=%d", rc, v);
    rc = t12c_nv_write_owner(&b, &so, IO, 0, w2, 8, 3, &v); T12C_CHECK(rc == T12C_RC_AUTHFAIL && !so.live, "NV_WriteValue owner/OSAP corrupt=3 (wrong secret) rc=0x%x", rc);
    t12_begin(&b, T12_TAG0, 0xCF); b_u32(&b, IO); b_u32(&b, 0); b_u32(&b, 8); { Rsp r = t12c_run(&b, "NV_ReadValue(no auth)"); T12C_CHECK(r.rc != 0, "NV_ReadValue of the owner area without authorization refused rc=0x%x", r.rc); }
    rc = t12c_nv_write_auth(&b, NULL, aAuth, IA, 0, w2, 8, 0, &v); T12C_CHECK(rc == 0 && v == 1, "NV_WriteValueAuth temp OIAP rc=0x%x verified=%d", rc, v);
    rc = t12c_osap(&b, &sn, T12C_ET_NV, IA, aAuth); T12C_CHECK(rc == 0, "OSAP(NV) rc=0x%x", rc);
    rc = t12c_nv_read_auth(&b, &sn, aAuth, IA, 0, 8, &d, &dl, 0, &v); T12C_CHECK(rc == 0 && v == 1 && dl == 8 && !memcmp(d, w2, 8), "NV_ReadValueAuth OSAP rc=0x%x verified=%d", rc, v);
    rc = t12c_nv_write_auth(&b, &sn, aAuth, IA, 8, w1, 8, 1, &v); T12C_CHECK(rc == T12C_RC_AUTHFAIL, "NV_WriteValueAuth corrupt=1 rc=0x%x", rc);
    /* counters: one counter is active per boot, it may be incremented repeatedly */
    uint32_t c1 = 0, c2 = 0, v0 = 0, val = 0;
    rc = t12c_counter_create(&b, cAuth, (const uint8_t *)"CTR1", &c1, &v0, 0, &v); T12C_CHECK(rc == 0 && v == 1, "CreateCounter rc=0x%x id=%u value=%u verified=%d", rc, c1, v0, v);
    rc = t12c_counter_read(&b, c1, &val); T12C_CHECK(rc == 0 && val == v0, "ReadCounter rc=0x%x value=%u", rc, val);
    rc = t12c_counter_increment(&b, NULL, c1, cAuth, &val, 0, &v); T12C_CHECK(rc == 0 && v == 1 && val == v0 + 1, "IncrementCounter temp OIAP rc=0x%x value=%u verified=%d", rc, val, v);
    rc = t12c_osap(&b, &sc, T12C_ET_COUNTER, c1, cAuth);
    rc2 = t12c_counter_increment(&b, &sc, c1, cAuth, &val, 0, &v); T12C_CHECK(rc == 0 && rc2 == 0 && v == 1 && val == v0 + 2, "IncrementCounter OSAP rc=0x%x,0x%x value=%u verified=%d", rc, rc2, val, v);
    rc = t12c_counter_increment(&b, &sc, c1, cAuth, &val, 0, &v); T12C_CHECK(rc == 0 && v == 1 && val == v0 + 3 && sc.live, "IncrementCounter OSAP continued rc=0x%x value=%u", rc, val);
    rc = t12c_terminate_handle(&b, sc.handle); T12C_CHECK(rc == 0, "Terminate_Handle(OSAP counter) rc=0x%x", rc);
    rc = t12c_counter_create(&b, c2Auth, (const uint8_t *)"CTR2", &c2, &val, 0, &v); T12C_CHECK(rc == 0 && v == 1 && c2 != c1, "CreateCounter #2 rc=0x%x id=%u value=%u", rc, c2, val);
    rc = t12c_counter_increment(&b, NULL, c2, c2Auth, &val, 0, &v); T12C_CHECK(rc == 0x45, "IncrementCounter of a second counter in the same boot: TPM_BAD_COUNTER rc=0x%x", rc);
    rc = t12c_counter_release(&b, NULL, c2, c2Auth, 0, &v); rc2 = t12c_counter_read(&b, c2, &val); T12C_CHECK(rc == 0 && v == 1 && rc2 != 0, "ReleaseCounter rc=0x%x verified=%d, ReadCounter afterwards rc=0x%x", rc, v, rc2);
    /* keys */
    uint8_t *blob = NULL; uint32_t bl = 0, kh = 0;
    rc = t12c_create_wrap_key(&b, T12C_KEY_STORAGE, kAuth, &blob, &bl, 0, &v); T12C_CHECK(rc == 0 && v == 1 && bl > 256, "CreateWrapKey(storage) rc=0x%x bloblen=%u verified=%d", rc, bl, v);
    if (rc == 0) {
        rc = t12c_load_key2(&b, NULL, blob, bl, &kh, 0, &v); T12C_CHECK(rc == 0 && v == 1, "LoadKey2 rc=0x%x handle=0x%x verified=%d", rc, kh, v);
        rc = t12c_osap(&b, &sc, T12C_ET_KEYHANDLE, kh, kAuth); T12C_CHECK(rc == 0, "OSAP(loaded key) rc=0x%x", rc);
        rc = t12c_flush_specific(&b, sc.handle, 2); rc2 = t12c_flush_specific(&b, kh, 1); T12C_CHECK(rc == 0 && rc2 == 0, "FlushSpecific(auth session, key) rc=0x%x,0x%x", rc, rc2);
    }
    free(blob); blob = NULL;
    /* an AUTH2 command: TPM_CertifyKey(certHandle = keyHandle = a signing key), two OIAP sessions, one parameter digest */
    rc = t12c_create_wrap_key(&b, T12C_KEY_SIGNING, kAuth, &blob, &bl, 0, &v); T12C_CHECK(rc == 0 && v == 1, "CreateWrapKey(signing) rc=0x%x verified=%d", rc, v);
    if (rc == 0 && t12c_load_key2(&b, NULL, blob, bl, &kh, 0, &v) == 0 && t12c_oiap(&b, &s) == 0 && t12c_oiap(&b, &so) == 0) {
        memcpy(s.secret, kAuth, 20); memcpy(so.secret, kAuth, 20);
        t12_begin(&b, T12_TAG2, 0x32); b_u32(&b, kh); b_u32(&b, kh); { uint8_t ar[20]; t12c_rand(ar, 20); b_bytes(&b, ar, 20); }
        size_t pe = b.n; t12c_auth_append_at(&b, 8, pe, &s, 0, 0, 0); t12c_auth_append_at(&b, 8, pe, &so, 0, 0, 0);
        Rsp r = t12c_run(&b, "CertifyKey"); int v1 = t12c_auth_verify(&r, 0x32, 0, &s, 2, 0), v2 = t12c_auth_verify(&r, 0x32, 0, &so, 2, 1);
        T12C_CHECK(r.rc == 0 && v1 == 1 && v2 == 1 && !s.live && !so.live, "CertifyKey (AUTH2) rc=0x%x verified=%d,%d", r.rc, v1, v2);
        if (r.rc) { t12c_terminate_handle(&b, s.handle); t12c_terminate_handle(&b, so.handle); }
        t12c_flush_specific(&b, kh, 1);
    } else T12C_CHECK(0, "could not set up the AUTH2 test%s", "");
    free(blob);
    t12c_st_noleak(&b, "after NV/counters/keys");
    /* transport */
    Rsp in; uint8_t wr[128];
    rc = t12c_establish_transport(&b, &tr_, 0); T12C_CHECK(rc == 0, "EstablishTransport rc=0x%x handle=0x%x", rc, tr_.handle);
    t12_begin(&ib, T12_TAG0, 0xF1); b_put32(&ib, 2, (uint32_t)ib.n);
    rc = t12c_execute_transport(&b, &tr_, ib.p, (uint32_t)ib.n, 1, 0, &in, &v); T12C_CHECK(rc == 0 && v == 1 && in.rc == 0 && in.len == 42, "ExecuteTransport(GetTicks) rc=0x%x inner=0x%x len=%u verified=%d", rc, in.rc, in.len, v);
    t12_begin(&ib, T12_TAG0, 0x15); b_u32(&ib, 0); b_put32(&ib, 2, (uint32_t)ib.n);
    rc = t12c_execute_transport(&b, &tr_, ib.p, (uint32_t)ib.n, 1, 0, &in, &v); T12C_CHECK(rc == 0 && v == 1 && in.rc == 0 && in.len == 30, "ExecuteTransport(PcrRead 0) rc=0x%x inner=0x%x verified=%d", rc, in.rc, v);
    t12_begin(&ib, T12_TAG0, 0x0A); b_put32(&ib, 2, (uint32_t)ib.n);
    rc = t12c_execute_transport(&b, &tr_, ib.p, (uint32_t)ib.n, 1, 0, &in, &v); T12C_CHECK(rc == 0 && v == 1 && in.rc == 0 && in.len == 34, "ExecuteTransport(OIAP) rc=0x%x inner=0x%x verified=%d", rc, in.rc, v);
    if (rc == 0 && in.rc == 0 && in.len == 34) {
        memset(&is, 0, sizeof is); is.handle = g32(in.p + 10); memcpy(is.nonceEven, in.p + 14, 20); is.live = 1; memcpy(is.secret, owner, 20);
        t12_begin(&ib, T12_TAG1, 0xCF); b_u32(&ib, IO); b_u32(&ib, 0); b_u32(&ib, 16); t12c_auth_append(&ib, 0, &is, 1, 0); b_put32(&ib, 2, (uint32_t)ib.n);
        rc = t12c_execute_transport(&b, &tr_, ib.p, (uint32_t)ib.n, 1, 0, &in, &v);
        int iv = rc == 0 ? t12c_auth_verify(&in, 0xCF, 0, &is, 1, 0) : -1;
        T12C_CHECK(rc == 0 && v == 1 && in.rc == 0 && iv == 1 && in.len == 14 + 16 + 41 && !memcmp(in.p + 14, w1, 8), "ExecuteTransport(NV_ReadValue AUTH1, owner, inner OIAP) rc=0x%x inner=0x%x outer verified=%d inner verified=%d", rc, in.rc, v, iv);
        t12_begin(&ib, T12_TAG0, 0x96); b_u32(&ib, is.handle); b_put32(&ib, 2, (uint32_t)ib.n);
        rc = t12c_execute_transport(&b, &tr_, ib.p, (uint32_t)ib.n, 1, 0, &in, &v); T12C_CHECK(rc == 0 && v == 1 && in.rc == 0, "ExecuteTransport(Terminate_Handle) [4 handle bytes outside DATAw] rc=0x%x inner=0x%x verified=%d", rc, in.rc, v);
    }
    { uint8_t od[20]; t12c_rand(od, 20); t12_begin(&ib, T12_TAG0, 0x0B); b_u16(&ib, T12C_ET_OWNER); b_u32(&ib, T12C_KH_OWNER); b_bytes(&ib, od, 20); b_put32(&ib, 2, (uint32_t)ib.n);
      rc = t12c_execute_transport(&b, &tr_, ib.p, (uint32_t)ib.n, 1, 0, &in, &v); T12C_CHECK(rc == 0 && v == 1 && in.rc == 0 && in.len == 54, "ExecuteTransport(OSAP) [26 in / 44 out bytes outside DATAw] rc=0x%x inner=0x%x verified=%d", rc, in.rc, v);
      if (rc == 0 && in.rc == 0 && in.len == 54) t12c_terminate_handle(&b, g32(in.p + 10)); }
    t12_begin(&ib, T12_TAG0, 0xF1); b_put32(&ib, 2, (uint32_t)ib.n);
    rc = t12c_execute_transport(&b, &tr_, ib.p, (uint32_t)ib.n, 1, 1, &in, &v); T12C_CHECK(rc == 0x1D && !tr_.live, "ExecuteTransport corrupt=1: TPM_AUTH2FAIL rc=0x%x", rc);
    rc = t12c_st_wrap(&b, &tr_, ib.p, (uint32_t)ib.n, &in, &v); T12C_CHECK(rc == 0 && v == 1, "new transport session works rc=0x%x", rc);
    rc = t12c_execute_transport(&b, &tr_, ib.p, (uint32_t)ib.n, 1, 2, &in, &v); T12C_CHECK(rc == 0x1D, "ExecuteTransport corrupt=2 rc=0x%x", rc);
    t12c_st_wrap(&b, &tr_, ib.p, (uint32_t)ib.n, &in, &v);
    rc = t12c_execute_transport(&b, &tr_, ib.p, (uint32_t)ib.n, 1, 3, &in, &v); T12C_CHECK(rc == 0x1D, "ExecuteTransport corrupt=3 rc=0x%x", rc);
    /* malformed wrapped commands: must be answered (any error), never crash; the ones that reach the HMAC check must pass it */
    rc = t12c_st_wrap(&b, &tr_, wr, 0, &in, &v); T12C_CHECK(rc != 0 && rc != T12C_BAD, "wrapped: empty rc=0x%x", rc);
    memset(wr, 0, sizeof wr); wr[1] = 0xC1; wr[5] = 5;
    rc = t12c_st_wrap(&b, &tr_, wr, 5, &in, &v); T12C_CHECK(rc != 0 && rc != T12C_BAD, "wrapped: 5 bytes rc=0x%x", rc);
    wr[5] = 11; wr[9] = 0xF1;
    rc = t12c_st_wrap(&b, &tr_, wr, 10, &in, &v); T12C_CHECK(rc != 0 && rc != T12C_BAD, "wrapped: paramSize 11 in 10 bytes rc=0x%x", rc);
    wr[5] = 10; wr[1] = 0xC2;
    rc = t12c_st_wrap(&b, &tr_, wr, 10, &in, &v); T12C_CHECK(rc != 0 && rc != T12C_BAD, "wrapped: tag AUTH1 without trailer rc=0x%x", rc);
    wr[1] = 0xC3; wr[5] = 60;
    rc = t12c_st_wrap(&b, &tr_, wr, 60, &in, &v); T12C_CHECK(rc != 0 && rc != T12C_BAD, "wrapped: tag AUTH2 with 50 trailer bytes rc=0x%x", rc);
    wr[1] = 0xC1; wr[5] = 10; wr[6] = 0x12; wr[7] = 0x34; wr[8] = 0x56; wr[9] = 0x78;
    rc = t12c_st_wrap(&b, &tr_, wr, 10, &in, &v); T12C_CHECK(rc != 0 && rc != T12C_BAD, "wrapped: unknown ordinal rc=0x%x", rc);
    memset(wr, 0, sizeof wr); wr[1] = 0xC2; wr[5] = 70; wr[9] = 0xE7; t12c_rand(wr + 10, 60);
    rc = t12c_st_wrap(&b, &tr_, wr, 70, &in, &v); T12C_CHECK(rc == 0x2F, "wrapped: ExecuteTransport inside ExecuteTransport: TPM_NO_WRAP_TRANSPORT (HMAC accepted) rc=0x%x", rc);
    memset(wr, 0, sizeof wr); wr[1] = 0xC2; wr[5] = 59; wr[9] = 0x15; t12c_rand(wr + 14, 45);
    rc = t12c_st_wrap(&b, &tr_, wr, 59, &in, &v); T12C_CHECK(rc == 0 && v == 1 && in.rc != 0, "wrapped: PcrRead with tag AUTH1 + random trailer: outer rc=0x%x verified=%d inner rc=0x%x", rc, v, in.rc);
    memset(wr, 0, sizeof wr); wr[1] = 0xC1; wr[5] = 12; wr[9] = 0x96;
    rc = t12c_st_wrap(&b, &tr_, wr, 12, &in, &v); T12C_CHECK(rc != 0 && rc != T12C_BAD, "wrapped: Terminate_Handle with 2 of 4 handle bytes rc=0x%x", rc);
    t12_begin(&ib, T12_TAG0, 0xF1); b_put32(&ib, 2, (uint32_t)ib.n);
    if (!tr_.live) t12c_establish_transport(&b, &tr_, 0);
    rc = t12c_execute_transport(&b, &tr_, ib.p, (uint32_t)ib.n, 0, 0, &in, &v); T12C_CHECK(rc == 0 && v == 1 && !tr_.live, "ExecuteTransport continue=0 closes the session rc=0x%x verified=%d", rc, v);
    tr_.live = 1; rc = t12c_execute_transport(&b, &tr_, ib.p, (uint32_t)ib.n, 1, 0, &in, &v); T12C_CHECK(rc == 0x22, "closed transport handle refused rc=0x%x", rc);
    /* a logging session: the key-handle paths of ExecuteTransport (public key digests of the wrapped command's keys) */
    rc = t12c_establish_transport_attr(&b, &tr_, T12C_TRANSPORT_LOG); T12C_CHECK(rc == 0, "EstablishTransport(LOG) rc=0x%x", rc);
    t12_begin(&ib, T12_TAG0, 0x0B); b_u16(&ib, T12C_ET_KEYHANDLE); b_u32(&ib, T12C_KH_SRK); t12c_rand(wr, 20); b_bytes(&ib, wr, 20); b_put32(&ib, 2, (uint32_t)ib.n);
    rc = t12c_execute_transport(&b, &tr_, ib.p, (uint32_t)ib.n, 1, 0, &in, &v); T12C_CHECK(rc == 0 && v == 1 && in.rc == 0, "LOG: ExecuteTransport(OSAP on the SRK) rc=0x%x inner=0x%x verified=%d", rc, in.rc, v);
    if (rc == 0 && in.rc == 0 && in.len == 54) {
        uint32_t ah = g32(in.p + 10);
        t12_begin(&ib, T12_TAG0, 0xBA); b_u32(&ib, ah); b_u32(&ib, 2); b_put32(&ib, 2, (uint32_t)ib.n);
        rc = t12c_execute_transport(&b, &tr_, ib.p, (uint32_t)ib.n, 1, 0, &in, &v); T12C_CHECK(rc == 0 && v == 1 && in.rc == 0, "LOG: ExecuteTransport(FlushSpecific RT_AUTH) [handle special case] rc=0x%x inner=0x%x verified=%d", rc, in.rc, v);
    }
    t12_begin(&ib, T12_TAG0, 0x21); b_u32(&ib, T12C_KH_SRK); b_put32(&ib, 2, (uint32_t)ib.n);       /* GetPubKey(SRK) without authorization: the key IS logged first */
    rc = t12c_st_wrap(&b, &tr_, ib.p, (uint32_t)ib.n, &in, &v); T12C_CHECK(rc == 0 && v == 1 && in.rc != 0, "LOG: ExecuteTransport(GetPubKey SRK, no auth) rc=0x%x inner=0x%x verified=%d", rc, in.rc, v);
    t12_begin(&ib, T12_TAG0, 0x21); b_u32(&ib, 0x01020304); b_put32(&ib, 2, (uint32_t)ib.n);
    rc = t12c_st_wrap(&b, &tr_, ib.p, (uint32_t)ib.n, &in, &v); T12C_CHECK(rc != 0 && rc != T12C_BAD, "LOG: wrapped GetPubKey with an unknown key handle rc=0x%x", rc);
    t12_begin(&ib, T12_TAG0, 0xBA); b_u32(&ib, 0x01020304); b_put32(&ib, 2, (uint32_t)ib.n);
    if (!tr_.live) t12c_establish_transport_attr(&b, &tr_, T12C_TRANSPORT_LOG);
    rc = t12c_execute_transport(&b, &tr_, ib.p, (uint32_t)ib.n, 1, 0, &in, &v); T12C_CHECK(rc != 0 && rc != T12C_BAD, "LOG: wrapped FlushSpecific without resourceType rc=0x%x", rc);
    t12_begin(&ib, T12_TAG0, 0x32); b_u32(&ib, T12C_KH_SRK); b_put32(&ib, 2, (uint32_t)ib.n);
    if (!tr_.live) t12c_establish_transport_attr(&b, &tr_, T12C_TRANSPORT_LOG);
    rc = t12c_execute_transport(&b, &tr_, ib.p, (uint32_t)ib.n, 1, 0, &in, &v); T12C_CHECK(rc != 0 && rc != T12C_BAD, "LOG: wrapped CertifyKey with one of two key handles rc=0x%x", rc);
    if (tr_.live) { rc = t12c_flush_specific(&b, tr_.handle, 4); T12C_CHECK(rc == 0, "FlushSpecific(transport session) rc=0x%x", rc); }
    t12c_st_noleak(&b, "after the transport tests");
    rc = t12c_establish_transport(&b, &tr_, 1); T12C_CHECK(rc == 0, "EstablishTransport(exclusive) rc=0x%x", rc);
    t12_begin(&ib, T12_TAG0, 0xF1); b_put32(&ib, 2, (uint32_t)ib.n);
    rc = t12c_execute_transport(&b, &tr_, ib.p, (uint32_t)ib.n, 1, 0, &in, &v); T12C_CHECK(rc == 0 && v == 1, "exclusive: ExecuteTransport(GetTicks) rc=0x%x", rc);
    rc = t12c_st_simple(&b, 0xF1, 0, 0, "GetTicks(outside)"); rc2 = t12c_execute_transport(&b, &tr_, ib.p, (uint32_t)ib.n, 1, 0, &in, &v);
    T12C_CHECK(rc == 0 && rc2 != 0, "exclusive: a command outside the session invalidates it: GetTicks rc=0x%x, ExecuteTransport rc=0x%x", rc, rc2);
    /* power cycle from storage */
    TPMLIB_Terminate();
    { TPM_RESULT mr = TPMLIB_MainInit(); T12C_CHECK(mr == 0, "MainInit from storage ret=%u", mr); }
    rc = t12c_st_simple(&b, 0x99, 2, 1, "Startup(ST_CLEAR)"); T12C_CHECK(rc == 0, "Startup(ST_CLEAR) after the power cycle rc=0x%x", rc);
    rc = t12c_nv_read_owner(&b, NULL, IO, 0, 16, &d, &dl, 0, &v); T12C_CHECK(rc == 0 && v == 1 && dl == 16 && !memcmp(d, w1, 8) && !memcmp(d + 8, w2, 8), "owner + owner NV area survive rc=0x%x verified=%d", rc, v);
    rc = t12c_nv_read_auth(&b, NULL, aAuth, IA, 0, 8, &d, &dl, 0, &v); T12C_CHECK(rc == 0 && v == 1 && dl == 8 && !memcmp(d, w2, 8), "auth NV area survives rc=0x%x verified=%d", rc, v);
    rc = t12c_counter_read(&b, c1, &val); T12C_CHECK(rc == 0 && val == v0 + 3, "counter value survives rc=0x%x value=%u", rc, val);
    rc = t12c_counter_increment(&b, NULL, c1, cAuth, &val, 1, &v); T12C_CHECK(rc == T12C_RC_AUTHFAIL, "IncrementCounter corrupt=1 rc=0x%x", rc);
    rc = t12c_counter_increment(&b, NULL, c1, cAuth, &val, 0, &v); T12C_CHECK(rc == 0 && v == 1 && val == v0 + 4, "IncrementCounter after the power cycle rc=0x%x value=%u", rc, val);
    rc = t12c_counter_release_owner(&b, NULL, c1, 0, &v); rc2 = t12c_counter_read(&b, c1, &val); T12C_CHECK(rc == 0 && v == 1 && rc2 != 0, "ReleaseCounterOwner rc=0x%x verified=%d, ReadCounter afterwards rc=0x%x", rc, v, rc2);
    rc = t12c_take_ownership_x(&b, owner, srk, 0, &v); T12C_CHECK(rc == 0x14, "TakeOwnership after the power cycle: TPM_OWNER_SET rc=0x%x", rc);
    rc = t12c_owner_clear(&b, NULL, 3, &v); T12C_CHECK(rc == T12C_RC_AUTHFAIL && g12c.have_owner, "OwnerClear corrupt=3 rc=0x%x", rc);
    rc = t12c_owner_clear(&b, NULL, 0, &v); T12C_CHECK(rc == 0 && v == 1 && !g12c.have_owner, "OwnerClear rc=0x%x verified=%d", rc, v);
    rc = t12c_osap(&b, &so, T12C_ET_OWNER, T12C_KH_OWNER, owner); T12C_CHECK(rc != 0, "OSAP(owner) after OwnerClear refused rc=0x%x", rc);
    TPMLIB_Terminate();
    b_free(&b); b_free(&ib);
    fprintf(stderr, "t12c_selftest: %d FAIL\n", t12c_st_fail);
    return t12c_st_fail;
}
#endif
#endif
