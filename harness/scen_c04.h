/* C04: authorization is enforced — the harness is the client side of the session protocol (OpenSSL),
 * the Lean checker recomputes everything independently (Crypto.Sha: cpHash, rpHash, HMAC, KDFa). */
typedef struct { uint32_t h; uint8_t nonceTPM[32]; uint8_t nonceCaller[32]; uint8_t key[32]; int keylen; uint32_t bind; char bindAuth[8]; uint8_t stale[32]; int have_stale; int is_policy, needAuth, needPw; int sym; /* 0 none, 1 XOR-SHA256, 2 AES-128-CFB */ } HSess;

static void c04_sha256(const uint8_t *a, size_t an, const uint8_t *b2, size_t bn, const uint8_t *c, size_t cn, uint8_t out[32]) {
    EVP_MD_CTX *m = EVP_MD_CTX_new(); EVP_DigestInit_ex(m, EVP_sha256(), NULL);
    if (an) EVP_DigestUpdate(m, a, an); if (bn) EVP_DigestUpdate(m, b2, bn); if (cn) EVP_DigestUpdate(m, c, cn);
    unsigned l = 32; EVP_DigestFinal_ex(m, out, &l); EVP_MD_CTX_free(m);
}
static void c04_hmac(const uint8_t *key, int kl, const uint8_t *msg, size_t n, uint8_t out[32]) { unsigned l = 32; HMAC(EVP_sha256(), key, kl, msg, n, out, &l); }
static void c04_kdfa(const uint8_t *key, int kl, const char *label, const uint8_t *u, int ul, const uint8_t *v, int vl, uint8_t out[32]) {
    Buf m = {0}; b_u32(&m, 1); b_bytes(&m, label, strlen(label) + 1); b_bytes(&m, u, ul); b_bytes(&m, v, vl); b_u32(&m, 256);
    c04_hmac(key, kl, m.p, m.n, out); b_free(&m);
}
/* start an HMAC (type 0) or policy (type 1) session, optionally bound to `bind` whose authValue is bindAuth */
static int c04_start(Buf *b, HSess *s, uint32_t bind, const char *bindAuth, int type) {
    memset(s, 0, sizeof *s);
    for (int i = 0; i < 32; i++) s->nonceCaller[i] = rnd(256);
    cmd_begin(b, ST_NO_SESSIONS, CC_StartAuthSession); b_u32(b, RH_NULL); b_u32(b, bind); b_2b(b, s->nonceCaller, 32); b_u16(b, 0); b_u8(b, type); b_u16(b, ALG_NULL); b_u16(b, ALG_SHA256);
    Rsp r = run(b);
    if (r.rc != 0 || r.len < 16 + 32) { tr("sstart rc=%u", r.rc); return -1; }
    s->h = g32(r.p + 10); memcpy(s->nonceTPM, r.p + 16, 32); s->bind = bind; strcpy(s->bindAuth, bindAuth);
    if (bind != RH_NULL) { c04_kdfa((const uint8_t *)bindAuth, (int)strlen(bindAuth), "ATH", s->nonceTPM, 32, s->nonceCaller, 32, s->key); s->keylen = 32; }
    tr_begin("sstart rc=0 h=%u type=%d bind=%u", s->h, type, bind); trhex("nc", s->nonceCaller, 32); trhex("nt", s->nonceTPM, 32); trhex("skey", s->key, s->keylen); tr_end();
    return 0;
}

#include <openssl/ec.h>
#include <openssl/bn.h>
#include <openssl/obj_mac.h>
#include <openssl/aes.h>
/* ECC P-256 decryption key in the owner hierarchy for salted sessions: returns handle, public point */
static uint32_t c04_saltkey(Buf *b, const char *ownerAuth, uint8_t x[32], uint8_t y[32]) {
    Buf t = {0}; b_u16(&t, 0x0023); b_u16(&t, ALG_SHA256); b_u32(&t, 0x00020472u); b_u16(&t, 0); b_u16(&t, ALG_NULL); b_u16(&t, ALG_NULL); b_u16(&t, 0x0003); b_u16(&t, ALG_NULL); b_u16(&t, 0); b_u16(&t, 0);
    cmd_begin(b, ST_SESSIONS, CC_CreatePrimary); b_u32(b, RH_OWNER); auth_pw(b, ownerAuth, strlen(ownerAuth)); b_u16(b, 4); b_u16(b, 0); b_u16(b, 0); b_2b(b, t.p, t.n); b_u16(b, 0); b_u32(b, 0);
    Rsp r = run(b); b_free(&t); if (r.rc != 0) { tr("saltkey rc=%u", r.rc); return 0; }
    Rd rd = rsp_params(&r, 1); uint16_t pl; const uint8_t *pub = r_2b(&rd, &pl); if (rd.err || pl < 2 + 2 + 4 + 2 + 8 + 4 + 64) return 0;
    /* ... type nameAlg attrs policy(2B empty) sym(NULL) scheme(NULL) curve kdf(NULL) x(2B) y(2B) */
    const uint8_t *q = pub + 2 + 2 + 4 + 2 + 2 + 2 + 2 + 2; if (g16(q) != 32) return 0; memcpy(x, q + 2, 32); q += 34; if (g16(q) != 32) return 0; memcpy(y, q + 2, 32);
    return g32(r.p + 10);
}
/* session with optional salt (ECDH against tpmKey) and optional parameter encryption */
static int c04_start_ext(Buf *b, HSess *s, uint32_t bind, const char *bindAuth, uint32_t tpmKey, const uint8_t kx[32], const uint8_t ky[32], int sym) {
    memset(s, 0, sizeof *s); s->sym = sym;
    for (int i = 0; i < 32; i++) s->nonceCaller[i] = rnd(256);
    uint8_t salt[32], ephx[32], ephy[32], ephd[32]; int saltlen = 0; Buf enc = {0};
    if (tpmKey != RH_NULL) {
        EC_GROUP *g = EC_GROUP_new_by_curve_name(NID_X9_62_prime256v1); BN_CTX *ctx = BN_CTX_new();
        uint8_t dbytes[32]; for (int i = 0; i < 32; i++) dbytes[i] = rnd(256); dbytes[0] &= 0x7f; dbytes[31] |= 1;
        BIGNUM *d = BN_bin2bn(dbytes, 32, NULL), *bx = BN_bin2bn(kx, 32, NULL), *by = BN_bin2bn(ky, 32, NULL), *ox = BN_new(), *oy = BN_new();
        EC_POINT *eph = EC_POINT_new(g), *peer = EC_POINT_new(g), *z = EC_POINT_new(g);
        EC_POINT_mul(g, eph, d, NULL, NULL, ctx); EC_POINT_get_affine_coordinates(g, eph, ox, oy, ctx); BN_bn2binpad(ox, ephx, 32); BN_bn2binpad(oy, ephy, 32);
        EC_POINT_set_affine_coordinates(g, peer, bx, by, ctx); EC_POINT_mul(g, z, NULL, peer, d, ctx); EC_POINT_get_affine_coordinates(g, z, ox, oy, ctx);
        uint8_t zx[32]; BN_bn2binpad(ox, zx, 32); memcpy(ephd, dbytes, 32);
        /* KDFe(SHA256, Z, "SECRET", ephemeral.x, key.x, 256) */
        Buf m = {0}; b_u32(&m, 1); b_bytes(&m, zx, 32); b_bytes(&m, "SECRET", 7); b_bytes(&m, ephx, 32); b_bytes(&m, kx, 32); c04_sha256(m.p, m.n, NULL, 0, NULL, 0, salt); b_free(&m); saltlen = 32;
        b_2b(&enc, ephx, 32); b_2b(&enc, ephy, 32);
        EC_POINT_free(eph); EC_POINT_free(peer); EC_POINT_free(z); BN_free(d); BN_free(bx); BN_free(by); BN_free(ox); BN_free(oy); BN_CTX_free(ctx); EC_GROUP_free(g);
    }
    cmd_begin(b, ST_NO_SESSIONS, CC_StartAuthSession); b_u32(b, tpmKey); b_u32(b, bind); b_2b(b, s->nonceCaller, 32); b_2b(b, enc.p, enc.n); b_u8(b, 0);
    if (sym == 1) { b_u16(b, 0x000A); b_u16(b, ALG_SHA256); } else if (sym == 2) { b_u16(b, 0x0006); b_u16(b, 128); b_u16(b, 0x0043); } else b_u16(b, ALG_NULL);
    b_u16(b, ALG_SHA256);
    Rsp r = run(b); b_free(&enc);
    if (r.rc != 0 || r.len < 16 + 32) { tr("sstart rc=%u", r.rc); return -1; }
    s->h = g32(r.p + 10); memcpy(s->nonceTPM, r.p + 16, 32); s->bind = bind; strcpy(s->bindAuth, bindAuth);
    if (bind != RH_NULL || saltlen) { uint8_t k[64]; int kl = 0; if (bind != RH_NULL) { kl = (int)strlen(bindAuth); memcpy(k, bindAuth, kl); } memcpy(k + kl, salt, saltlen); kl += saltlen;
        c04_kdfa(k, kl, "ATH", s->nonceTPM, 32, s->nonceCaller, 32, s->key); s->keylen = 32; }
    tr_begin("sstart rc=0 h=%u type=0 bind=%u sym=%d tpmkey=%u", s->h, bind, sym, tpmKey); trhex("nc", s->nonceCaller, 32); trhex("nt", s->nonceTPM, 32); trhex("skey", s->key, s->keylen);
    if (saltlen) { trhex("ephd", ephd, 32); trhex("kx", kx, 32); trhex("ky", ky, 32); } tr_end();
    return 0;
}
/* the parameter-encryption mask/cipher of the session protocol, as the CLIENT computes it (OpenSSL) */
static void c04_param_crypt(HSess *s, const char *entityAuth, int bound, const uint8_t *nNewer, const uint8_t *nOlder, uint8_t *data, int len, int encrypt) {
    uint8_t key[64]; int kl = s->keylen; memcpy(key, s->key, kl); if (!bound) { memcpy(key + kl, entityAuth, strlen(entityAuth)); kl += (int)strlen(entityAuth); }
    if (s->sym == 1) { /* XOR: KDFa(key, "XOR", nonceNewer, nonceOlder, len*8) in 32-byte blocks */
        for (int blk = 0, off = 0; off < len; blk++, off += 32) { Buf m = {0}; uint8_t out[32]; b_u32(&m, blk + 1); b_bytes(&m, "XOR", 4); b_bytes(&m, nNewer, 32); b_bytes(&m, nOlder, 32); b_u32(&m, len * 8);
            c04_hmac(key, kl, m.p, m.n, out); b_free(&m); for (int q = 0; q < 32 && off + q < len; q++) data[off + q] ^= out[q]; } }
    else if (s->sym == 2) { uint8_t ki[32]; Buf m = {0}; b_u32(&m, 1); b_bytes(&m, "CFB", 4); b_bytes(&m, nNewer, 32); b_bytes(&m, nOlder, 32); b_u32(&m, 256); c04_hmac(key, kl, m.p, m.n, ki); b_free(&m);
        AES_KEY ak; AES_set_encrypt_key(ki, 128, &ak); int num = 0; uint8_t iv[16]; memcpy(iv, ki + 16, 16); uint8_t *tmp = malloc(len ? len : 1);
        AES_cfb128_encrypt(data, tmp, len, &ak, iv, &num, encrypt ? AES_ENCRYPT : AES_DECRYPT); memcpy(data, tmp, len); free(tmp); }
}
/* NV_Write with an encrypted data parameter / NV_Read with an encrypted response, through session s */
static void c04_enc_nv(Buf *b, HSess *s, uint32_t idx, const uint8_t *name, int nl, const char *auth, int write, uint8_t *nvdata, int corrupt) {
    uint8_t nc[32]; for (int i = 0; i < 32; i++) nc[i] = rnd(256);
    uint8_t plain[16]; int dl = 4 + 4 * rnd(3), off = 4 * rnd(2); for (int q = 0; q < dl; q++) plain[q] = rnd(256);
    Buf params = {0};
    if (write) { uint8_t enc[16]; memcpy(enc, plain, dl); c04_param_crypt(s, auth, 0, nc, s->nonceTPM, enc, dl, 1); b_u16(&params, dl); b_bytes(&params, enc, dl); b_u16(&params, off); }
    else { b_u16(&params, dl); b_u16(&params, off); }
    uint8_t cph[32], hm[32]; Buf m = {0}; b_u32(&m, write ? CC_NV_Write : CC_NV_Read); b_bytes(&m, name, nl); b_bytes(&m, name, nl); b_bytes(&m, params.p, params.n); c04_sha256(m.p, m.n, NULL, 0, NULL, 0, cph); b_reset(&m);
    uint8_t attrs = 0x01 | (write ? 0x20 : 0x40); uint8_t key[64]; int kl = s->keylen; memcpy(key, s->key, kl); memcpy(key + kl, auth, strlen(auth)); kl += (int)strlen(auth);
    b_bytes(&m, cph, 32); b_bytes(&m, nc, 32); b_bytes(&m, s->nonceTPM, 32); b_u8(&m, attrs); c04_hmac(key, kl, m.p, m.n, hm); b_free(&m);
    if (corrupt) hm[rnd(32)] ^= 1;
    cmd_begin(b, ST_SESSIONS, write ? CC_NV_Write : CC_NV_Read); b_u32(b, idx); b_u32(b, idx);
    b_u32(b, 4 + 2 + 32 + 1 + 2 + 32); b_u32(b, s->h); b_2b(b, nc, 32); b_u8(b, attrs); b_2b(b, hm, 32); b_bytes(b, params.p, params.n); b_free(&params);
    Rsp r = run(b);
    tr_begin("auth what=%s corrupt=%d sh=%u rc=%u", write ? "enc-nvwrite" : "enc-nvread", corrupt ? 1 : 0, s->h, r.rc); trhex("req", b->p, b->n); trhex("rsp", r.p, r.len); tr_end();
    if (r.rc == 0 && r.tag == ST_SESSIONS) { uint32_t psz = g32(r.p + 10); const uint8_t *sa = r.p + 14 + psz;
        if (14 + psz + 2 + 32 <= r.len && g16(sa) == 32) { memcpy(s->stale, s->nonceTPM, 32); s->have_stale = 1; memcpy(s->nonceTPM, sa + 2, 32); }
        if (write) memcpy(nvdata + off, plain, dl); }
    if (write) { cmd_begin(b, ST_SESSIONS, CC_NV_Read); b_u32(b, idx); b_u32(b, idx); auth_pw(b, auth, strlen(auth)); b_u16(b, 16); b_u16(b, 0); Rsp rr = run(b);
        tr_begin("effect handle=%u cmd_rc=%u rc=%u", idx, r.rc, rr.rc); if (rr.rc == 0) trhex("actual", rr.p + 16, 16); tr_end(); }
}

/* what to corrupt in an otherwise correct authorization */
enum { K_NONE, K_HMAC, K_AUTHVAL, K_STALE_NONCE, K_PARAM, K_ATTR, K_NAME, K_MISSING, K_NCOUNT };

/* one command with one handle needing USER auth (plus optional extra handle `h2` with name `name2`), authorised by session s.
 * entityAuth: the auth value of the entity; boundToEntity: the session is bound to exactly this entity and its auth has not changed. */
static Rsp c04_authcmd(Buf *b, HSess *s, uint32_t cc, uint32_t h1, const uint8_t *name1, int n1l, uint32_t h2, const uint8_t *name2, int n2l,
                       const uint8_t *params, int pl, const char *entityAuth, int boundToEntity, int corrupt, const char *what) {
    uint8_t cph[32], hm[32], key[64]; int kl = 0;
    Buf m = {0};
    /* cpHash = H(cc || names || params) */
    b_u32(&m, cc); b_bytes(&m, name1, n1l); if (h2) b_bytes(&m, name2, n2l); b_bytes(&m, params, pl);
    if (corrupt == K_NAME) m.p[4 + rnd(n1l)] ^= 1 << rnd(8);
    c04_sha256(m.p, m.n, NULL, 0, NULL, 0, cph); b_reset(&m);
    memcpy(key, s->key, s->keylen); kl = s->keylen;
    const char *av = corrupt == K_AUTHVAL ? "WRONG" : entityAuth;
    if (!boundToEntity) { memcpy(key + kl, av, strlen(av)); kl += (int)strlen(av); }
    else if (corrupt == K_AUTHVAL) { key[0] ^= 1; }
    uint8_t oldNonceTPM[32]; memcpy(oldNonceTPM, s->nonceTPM, 32);
    uint8_t nc[32]; for (int i = 0; i < 32; i++) nc[i] = rnd(256);
    uint8_t attrs = 0x01;   /* continueSession */
    const uint8_t *ntpm = s->nonceTPM;
    if (corrupt == K_STALE_NONCE) { if (!s->have_stale) corrupt = K_HMAC; else ntpm = s->stale; }
    b_bytes(&m, cph, 32); b_bytes(&m, nc, 32); b_bytes(&m, ntpm, 32); b_u8(&m, attrs);
    c04_hmac(key, kl, m.p, m.n, hm); b_free(&m);
    if (corrupt == K_HMAC) hm[rnd(32)] ^= 1 << rnd(8);
    /* assemble */
    Buf pm = {0}; b_bytes(&pm, params, pl);
    if (corrupt == K_PARAM && pl > 0) pm.p[rnd(pl)] ^= 1 << rnd(8);
    uint32_t hh1 = h1;
    if (corrupt == K_MISSING) { cmd_begin(b, ST_NO_SESSIONS, cc); b_u32(b, hh1); if (h2) b_u32(b, h2); b_bytes(b, pm.p, pm.n); }
    else {
        cmd_begin(b, ST_SESSIONS, cc); b_u32(b, hh1); if (h2) b_u32(b, h2);
        b_u32(b, 4 + 2 + 32 + 1 + 2 + 32); b_u32(b, s->h); b_2b(b, nc, 32); b_u8(b, corrupt == K_ATTR ? (attrs | 0x80) : attrs); b_2b(b, hm, 32);
        b_bytes(b, pm.p, pm.n);
    }
    Rsp r = run(b);
    tr_begin("auth what=%s corrupt=%d sh=%u rc=%u", what, corrupt, s->h, r.rc); trhex("req", b->p, b->n); trhex("rsp", r.p, r.len); tr_end();
    if (r.rc == 0 && r.tag == ST_SESSIONS) {
        uint32_t psz = g32(r.p + 10); const uint8_t *sa = r.p + 14 + psz;
        if (14 + psz + 2 + 32 + 1 + 2 + 32 <= r.len && g16(sa) == 32) { memcpy(s->stale, oldNonceTPM, 32); s->have_stale = 1; memcpy(s->nonceTPM, sa + 2, 32); }
    }
    memcpy(s->nonceCaller, nc, 32);
    b_free(&pm);
    return r;
}
static void be32buf(uint8_t *p, uint32_t v) { p[0] = v >> 24; p[1] = v >> 16; p[2] = v >> 8; p[3] = v; }


/* ---------- general form: up to 2 sessions, HMAC / policy / password ---------- */
enum { M_HMAC_AUTH = 0, M_HMAC_NOAUTH, M_PW_FIELD, M_RS_PW, M_EMPTY };
typedef struct { HSess *s; int mode; const char *auth; } ASpec;

static Rsp c04_send(Buf *b, uint32_t cc, int nh, const uint32_t *h, const uint8_t *const *names, const int *nl, const uint8_t *params, int pl,
                    int ns, ASpec *as, int corrupt, const char *what) {
    uint8_t cph[32]; Buf m = {0};
    b_u32(&m, cc); for (int i = 0; i < nh; i++) b_bytes(&m, names[i], nl[i]); b_bytes(&m, params, pl);
    if (corrupt == K_NAME) m.p[4 + rnd(nl[0])] ^= 1 << rnd(8);
    c04_sha256(m.p, m.n, NULL, 0, NULL, 0, cph); b_reset(&m);
    uint8_t nc[2][32], hm[2][64]; int hl[2]; uint8_t old[2][32];
    for (int i = 0; i < ns; i++) {
        HSess *s = as[i].s; const char *av = (corrupt == K_AUTHVAL && i == 0) ? "WRONG" : as[i].auth;
        for (int q = 0; q < 32; q++) nc[i][q] = rnd(256);
        if (s) memcpy(old[i], s->nonceTPM, 32);
        switch (as[i].mode) {
        case M_RS_PW: case M_PW_FIELD: hl[i] = (int)strlen(av); memcpy(hm[i], av, hl[i]); break;
        case M_EMPTY: hl[i] = 0; break;
        default: {
            uint8_t key[64]; int kl = s->keylen; memcpy(key, s->key, kl);
            if (as[i].mode == M_HMAC_AUTH) { memcpy(key + kl, av, strlen(av)); kl += (int)strlen(av); }
            else if (corrupt == K_AUTHVAL && i == 0) { key[kl++] = 'x'; }
            const uint8_t *nt = s->nonceTPM;
            if (corrupt == K_STALE_NONCE && i == 0) { if (s->have_stale) nt = s->stale; else corrupt = K_HMAC; }
            b_bytes(&m, cph, 32); b_bytes(&m, nc[i], 32); b_bytes(&m, nt, 32); b_u8(&m, 0x01);
            c04_hmac(key, kl, m.p, m.n, hm[i]); hl[i] = 32; b_reset(&m);
            if (corrupt == K_HMAC && i == 0) hm[i][rnd(32)] ^= 1 << rnd(8);
        } }
    }
    b_free(&m);
    Buf pm = {0}; b_bytes(&pm, params, pl);
    if (corrupt == K_PARAM && pl > 0) pm.p[rnd(pl)] ^= 1 << rnd(8);
    int send_ns = corrupt == K_MISSING ? ns - 1 : ns;
    cmd_begin(b, send_ns ? ST_SESSIONS : ST_NO_SESSIONS, cc); for (int i = 0; i < nh; i++) b_u32(b, h[i]);
    if (send_ns) {
        size_t at = b->n; b_u32(b, 0);
        for (int i = 0; i < send_ns; i++) {
            int pw = as[i].mode == M_RS_PW;
            b_u32(b, pw ? 0x40000009u : as[i].s->h); if (pw) b_u16(b, 0); else b_2b(b, nc[i], 32);
            b_u8(b, (corrupt == K_ATTR && i == 0) ? 0x81 : 0x01); b_2b(b, hm[i], hl[i]);
        }
        b_put32(b, at, (uint32_t)(b->n - at - 4));
    }
    b_bytes(b, pm.p, pm.n); b_free(&pm);
    Rsp r = run(b);
    tr_begin("auth what=%s corrupt=%d sh=%u rc=%u loc=%d pp=%d", what, corrupt, ns && as[0].s ? as[0].s->h : 0, r.rc, g_locality, g_pp); trhex("req", b->p, b->n); trhex("rsp", r.p, r.len); tr_end();
    if (r.rc == 0 && r.tag == ST_SESSIONS) {
        uint32_t psz = g32(r.p + 10); size_t off = 14 + psz;
        for (int i = 0; i < send_ns && off + 2 <= r.len; i++) {
            uint16_t nl2 = g16(r.p + off); const uint8_t *np = r.p + off + 2; off += 2 + nl2 + 1; if (off + 2 > r.len) break; uint16_t hl2 = g16(r.p + off); off += 2 + hl2;
            HSess *s = as[i].s; if (as[i].mode == M_RS_PW || !s || nl2 != 32) continue;
            memcpy(s->stale, old[i], 32); s->have_stale = 1; memcpy(s->nonceTPM, np, 32);
            if (s->is_policy) { s->needAuth = s->needPw = 0; }
        }
    }
    return r;
}
/* policy commands on session s; each traced for the model */
static uint32_t c04_pol(Buf *b, HSess *s, uint32_t cc, uint32_t code, const uint8_t (*ds)[32], int nds) {
    cmd_begin(b, ST_NO_SESSIONS, cc); b_u32(b, s->h);
    if (cc == CC_PolicyCommandCode) b_u32(b, code);
    if (cc == CC_PolicyOR) { b_u32(b, nds); for (int i = 0; i < nds; i++) b_2b(b, ds[i], 32); }
    Rsp r = run(b);
    tr_begin("pol sh=%u cc=%x code=%u rc=%u", s->h, cc, code, r.rc);
    if (cc == CC_PolicyOR) { fprintf(g_tr, " digests="); for (int i = 0; i < nds; i++) { for (int q = 0; q < 32; q++) fprintf(g_tr, "%02x", ds[i][q]); if (i + 1 < nds) fputc(',', g_tr); } }
    tr_end();
    if (r.rc == 0) {
        if (cc == CC_PolicyAuthValue) { s->needAuth = 1; s->needPw = 0; } else if (cc == CC_PolicyPassword) { s->needPw = 1; s->needAuth = 0; }
        else if (cc == CC_PolicyRestart) s->needAuth = s->needPw = 0;
    }
    return r.rc;
}
static int c04_getdigest(Buf *b, HSess *s, uint8_t out[32]) {
    cmd_begin(b, ST_NO_SESSIONS, CC_PolicyGetDigest); b_u32(b, s->h); Rsp r = run(b);
    if (r.rc != 0 || r.len < 12 + 32 || g16(r.p + 10) != 32) { tr("pgd sh=%u rc=%u", s->h, r.rc); return -1; }
    memcpy(out, r.p + 12, 32); tr_begin("pgd sh=%u rc=0", s->h); trhex("digest", out, 32); tr_end(); return 0;
}

/* ---- PCR-bound branch: PolicyPCR over sha256:{16,20}. PCR 16 belongs to the group whose updates do not move the PCR update
   counter, PCR 20 (extend at locality 1-3, reset at 2-4) does: a change after PolicyPCR is noticed only through the counter ---- */
static const uint8_t C04_PCRSEL[10] = {0, 0, 0, 1, 0, 0x0B, 3, 0, 0, 0x11};
static int g_c04_pcr_dirty;
/* PCR_Read of the selection: logs values and the update counter for the model */
static void c04_pcrv(Buf *b) {
    cmd_begin(b, ST_NO_SESSIONS, CC_PCR_Read); b_bytes(b, C04_PCRSEL, 10); Rsp r = run(b);
    if (r.rc != 0) { tr("pcrv rc=%u", r.rc); return; }
    Rd rd = { r.p, r.len, 10, 0 }; uint32_t ctr = r_u32(&rd); uint32_t cnt = r_u32(&rd); for (uint32_t i = 0; i < cnt; i++) { r_u16(&rd); uint8_t sz = r_u8(&rd); r_bytes(&rd, sz); }
    uint32_t nd = r_u32(&rd); uint8_t vals[64]; int vl = 0; for (uint32_t i = 0; i < nd && i < 2; i++) { uint16_t l; const uint8_t *d = r_2b(&rd, &l); if (l == 32) { memcpy(vals + vl, d, 32); vl += 32; } }
    tr_begin("pcrv rc=0 ctr=%u", ctr); trhex("vals", vals, vl); tr_end();
}
static void c04_pcr_extend(Buf *b, int pcr) {
    int loc = g_locality; if (pcr == 20) g_locality = 2;
    uint8_t d[32]; for (int i = 0; i < 32; i++) d[i] = rnd(256);
    cmd_begin(b, ST_SESSIONS, CC_PCR_Extend); b_u32(b, pcr); auth_pw(b, "", 0); b_u32(b, 1); b_u16(b, ALG_SHA256); b_bytes(b, d, 32); Rsp r = run(b);
    g_locality = loc; tr("pcrx pcr=%d rc=%u", pcr, r.rc); g_c04_pcr_dirty = 1; c04_pcrv(b);
}
static void c04_pcr_clean(Buf *b) {
    if (g_c04_pcr_dirty) {
        cmd_begin(b, ST_SESSIONS, CC_PCR_Reset); b_u32(b, 16); auth_pw(b, "", 0); run(b);
        int loc = g_locality; g_locality = 2; cmd_begin(b, ST_SESSIONS, CC_PCR_Reset); b_u32(b, 20); auth_pw(b, "", 0); run(b); g_locality = loc;
        g_c04_pcr_dirty = 0;
    }
    c04_pcrv(b);
}
/* PolicyPCR; given: 0 no digest, 1 the digest of the current values, 2 a wrong digest */
static uint32_t c04_polpcr(Buf *b, HSess *s, int given) {
    uint8_t dg[32]; int gl = 0;
    if (given) { cmd_begin(b, ST_NO_SESSIONS, CC_PCR_Read); b_bytes(b, C04_PCRSEL, 10); Rsp r = run(b);
        if (r.rc == 0) { Rd rd = { r.p, r.len, 10, 0 }; r_u32(&rd); uint32_t cnt = r_u32(&rd); for (uint32_t i = 0; i < cnt; i++) { r_u16(&rd); uint8_t sz = r_u8(&rd); r_bytes(&rd, sz); }
            uint32_t nd = r_u32(&rd); uint8_t vals[64]; int vl = 0; for (uint32_t i = 0; i < nd && i < 2; i++) { uint16_t l; const uint8_t *d = r_2b(&rd, &l); if (l == 32) { memcpy(vals + vl, d, 32); vl += 32; } }
            unsigned int dl; EVP_Digest(vals, vl, dg, &dl, EVP_sha256(), NULL); gl = 32; if (given == 2) dg[rnd(32)] ^= 1 << rnd(8); } }
    cmd_begin(b, ST_NO_SESSIONS, CC_PolicyPCR); b_u32(b, s->h); b_2b(b, dg, gl); b_bytes(b, C04_PCRSEL, 10);
    Rsp r = run(b);
    tr_begin("pol sh=%u cc=%x code=0 rc=%u", s->h, CC_PolicyPCR, r.rc); trhex("sel", C04_PCRSEL, 10); trhex("given", dg, gl); tr_end();
    return r.rc;
}
enum { BR_W, BR_R, BR_C, BR_D, BR_P, BR_L, BR_X, BR_N };   /* BR_L: PolicyLocality(locality 1), BR_X: PolicyPhysicalPresence — both authorize NV_Read */
typedef struct { uint32_t idx; char auth[8]; uint8_t name[34]; int nl; uint8_t d[BR_N][32]; uint8_t P[32]; uint8_t data[16]; int exists; } PolNv;

static void c04_nvname(Buf *b, PolNv *n) {
    cmd_begin(b, ST_NO_SESSIONS, CC_NV_ReadPublic); b_u32(b, n->idx); Rsp r = run(b);
    if (r.rc == 0) { uint16_t pl = g16(r.p + 10); n->nl = g16(r.p + 12 + pl); if (n->nl <= 34) memcpy(n->name, r.p + 14 + pl, n->nl); }
    tr_begin("ent handle=%u kind=nv authread=1 authwrite=0 polread=1 polwrite=1", n->idx); trhex("name", n->name, n->nl); trhex("auth", (uint8_t *)n->auth, strlen(n->auth)); trhex("policy", n->P, 32); trhex("nv", n->data, 16); tr_end();
}
static void c04_branch(Buf *b, HSess *s, PolNv *n, int br, int dev);
static void c04_poldefine(Buf *b, PolNv *n, HSess *ps) {
    uint32_t attrs = (1u << 3) | (1u << 10) | (1u << 18) | (1u << 19) | (1u << 25) | (1u << 30);
    cmd_begin(b, ST_SESSIONS, CC_NV_DefineSpace); b_u32(b, RH_PLATFORM); auth_pw(b, "", 0); b_2b(b, n->auth, strlen(n->auth));
    b_u16(b, 14 + 32); b_u32(b, n->idx); b_u16(b, ALG_SHA256); b_u32(b, attrs); b_2b(b, n->P, 32); b_u16(b, 16);
    Rsp r = run(b); tr("nvdefine handle=%u rc=%u", n->idx, r.rc);
    n->exists = r.rc == 0; memset(n->data, 0xff, 16);
    if (!n->exists) return;
    c04_nvname(b, n);
    /* first write (through the policy, the only way to write): afterwards the index is readable and its name is final */
    c04_branch(b, ps, n, 0, 0);
    ASpec as[1] = { { ps, 0 /* M_HMAC_AUTH */, n->auth } };
    const uint8_t *names[2] = { n->name, n->name }; int nl[2] = { n->nl, n->nl }; uint32_t hh[2] = { n->idx, n->idx };
    uint8_t p[2 + 16 + 2]; p[0] = 0; p[1] = 16; for (int q = 0; q < 16; q++) p[2 + q] = n->data[q] = rnd(256); p[18] = p[19] = 0;
    Rsp r2 = c04_send(b, CC_NV_Write, 2, hh, names, nl, p, 20, 1, as, 0, "pol-nvwrite-first");
    if (r2.rc != 0) { n->exists = 0; return; }
    c04_nvname(b, n);
}
static void c04_pol_loc(Buf *b, HSess *s, uint8_t loc) {
    cmd_begin(b, ST_NO_SESSIONS, 0x16F); b_u32(b, s->h); b_u8(b, loc); Rsp r = run(b);
    tr("pol sh=%u cc=16f code=0 rc=%u loc=%u", s->h, r.rc, loc);
}
static void c04_pol_pp(Buf *b, HSess *s) {
    cmd_begin(b, ST_NO_SESSIONS, 0x187); b_u32(b, s->h); Rsp r = run(b); tr("pol sh=%u cc=187 code=0 rc=%u", s->h, r.rc);
}
/* build branch `br` of the policy on session s; `dev` deviates from the correct sequence */
static void c04_branch(Buf *b, HSess *s, PolNv *n, int br, int dev) {
    c04_pol(b, s, CC_PolicyRestart, 0, NULL, 0);
    uint32_t code = br == BR_W ? CC_NV_Write : br == BR_C ? CC_NV_ChangeAuth : CC_NV_UndefineSpaceSpecial;
    if (dev == 1) code = CC_NV_Read;                       /* wrong command code in the policy */
    switch (br) {
    case BR_W: c04_pol(b, s, CC_PolicyCommandCode, code, NULL, 0); if (dev != 2) c04_pol(b, s, dev == 5 ? CC_PolicyPassword : CC_PolicyAuthValue, 0, NULL, 0); break;
    case BR_R: c04_pol(b, s, dev == 5 ? CC_PolicyAuthValue : CC_PolicyPassword, 0, NULL, 0); break;
    case BR_C: c04_pol(b, s, CC_PolicyCommandCode, code, NULL, 0); break;
    case BR_L: /* dev 1: another locality in the policy (the digest is not the branch's); 2: narrowed by a second PolicyLocality that
                  leaves nothing (refused) ; 5: a second PolicyLocality that keeps locality 1 but changes the digest */
        c04_pol_loc(b, s, dev == 1 ? 0x04 : 0x02);
        if (dev == 2) c04_pol_loc(b, s, 0x04); else if (dev == 5) c04_pol_loc(b, s, 0x03);
        break;
    case BR_X: if (dev != 2) c04_pol_pp(b, s); if (dev == 5) c04_pol_pp(b, s); break;
    case BR_P: /* dev 1: a PCR changed before PolicyPCR; 2: wrong digest supplied; 5: PCR 20 changes after PolicyPCR (counter moves);
                  6 (generic, below) adds a command code; 4: PCR 16 changes after PolicyPCR (counter does not move) */
        c04_pcr_clean(b);
        if (dev == 1) c04_pcr_extend(b, chance(50) ? 16 : 20);
        c04_polpcr(b, s, dev == 2 ? 2 : rnd(2));
        if (dev == 5) { c04_pcr_extend(b, 20); if (chance(40)) c04_polpcr(b, s, 0); }
        if (dev == 4) c04_pcr_extend(b, 16);
        break;
    default:   if (dev != 2) c04_pol(b, s, CC_PolicyAuthValue, 0, NULL, 0); c04_pol(b, s, CC_PolicyCommandCode, code, NULL, 0); break;
    }
    if (dev == 6) c04_pol(b, s, CC_PolicyCommandCode, CC_NV_Read, NULL, 0);   /* second, conflicting command code: refused */
    if (dev != 3) c04_pol(b, s, CC_PolicyOR, 0, (const uint8_t (*)[32])n->d, BR_N); /* dev 3: the OR step is left out */
    if (dev == 4 && br != BR_P) c04_pol(b, s, CC_PolicyAuthValue, 0, NULL, 0);  /* an extra step after the OR */
    if (chance(30)) { uint8_t dg[32]; c04_getdigest(b, s, dg); }
}
/* ---- chains of the policy assertions that only extend the digest: the TPM's policyDigest (PolicyGetDigest) against the hash chain
   the model builds from the parameters. Trial and real sessions; each chain uses a command at most once and at most one of the
   commands that claim the session's cpHash slot (PolicyCpHash, PolicyNameHash, PolicyTemplate, PolicyDuplicationSelect). ---- */
static void c04_trpol(HSess *s, uint32_t cc, uint32_t rc) { tr_begin("pol sh=%u cc=%x code=0 rc=%u", s->h, cc, rc); }
static void c04_policy_chain(Buf *b, int trial) {
    HSess s; if (c04_start(b, &s, RH_NULL, "", trial ? 3 : 1) != 0) return;
    s.is_policy = 1;
    int order[8] = {0, 1, 2, 3, 4, 5, 6, 7}; for (int i = 7; i > 0; i--) { int j = rnd(i + 1), t = order[i]; order[i] = order[j]; order[j] = t; }
    int n = 2 + rnd(5), slot_used = 0;
    for (int k = 0; k < n; k++) {
        uint8_t d[32]; for (int q = 0; q < 32; q++) d[q] = rnd(256);
        switch (order[k]) {
        case 0: { uint8_t loc = chance(70) ? (uint8_t)(1u << rnd(5)) : chance(50) ? (uint8_t)(1 + rnd(31)) : (uint8_t)(32 + rnd(224));
            cmd_begin(b, ST_NO_SESSIONS, 0x16F); b_u32(b, s.h); b_u8(b, loc); Rsp r = run(b); c04_trpol(&s, 0x16F, r.rc); fprintf(g_tr, " loc=%u", loc); tr_end(); break; }
        case 1: { if (slot_used) break; slot_used = 1; uint32_t cc = (uint32_t[]){0x16E, 0x170, 0x190}[rnd(3)];
            cmd_begin(b, ST_NO_SESSIONS, cc); b_u32(b, s.h); b_2b(b, d, 32); Rsp r = run(b); c04_trpol(&s, cc, r.rc); trhex("h", d, 32); tr_end(); break; }
        case 2: { uint8_t w = rnd(2); cmd_begin(b, ST_NO_SESSIONS, 0x18F); b_u32(b, s.h); b_u8(b, w); Rsp r = run(b); c04_trpol(&s, 0x18F, r.rc); fprintf(g_tr, " w=%u", w); tr_end(); break; }
        case 3: { cmd_begin(b, ST_NO_SESSIONS, 0x187); b_u32(b, s.h); Rsp r = run(b); c04_trpol(&s, 0x187, r.rc); tr_end(); break; }
        case 4: { /* on a real session the comparison is evaluated: time >= 0 always holds; a trial session takes any */
            int ol = trial ? 1 + rnd(8) : 8; uint8_t op8[8]; for (int q = 0; q < 8; q++) op8[q] = trial ? rnd(256) : 0;
            uint16_t off = trial ? rnd(25 - ol + 1) : 0, eo = trial ? rnd(12) : 0x0007;
            cmd_begin(b, ST_NO_SESSIONS, 0x16D); b_u32(b, s.h); b_2b(b, op8, ol); b_u16(b, off); b_u16(b, eo); Rsp r = run(b);
            c04_trpol(&s, 0x16D, r.rc); trhex("operand", op8, ol); fprintf(g_tr, " offset=%u op=%u", off, eo); tr_end(); break; }
        case 5: { if (slot_used) break; slot_used = 1; uint8_t on[34], pn[34]; on[0] = pn[0] = 0; on[1] = pn[1] = 0x0B; for (int q = 2; q < 34; q++) { on[q] = rnd(256); pn[q] = rnd(256); }
            uint8_t inc = rnd(2);
            cmd_begin(b, ST_NO_SESSIONS, 0x188); b_u32(b, s.h); b_2b(b, on, 34); b_2b(b, pn, 34); b_u8(b, inc); Rsp r = run(b);
            c04_trpol(&s, 0x188, r.rc); trhex("obj", on, 34); trhex("parent", pn, 34); fprintf(g_tr, " include=%u", inc); tr_end(); break; }
        case 6: { uint8_t ref[16]; int rl = rnd(17); for (int q = 0; q < rl; q++) ref[q] = rnd(256); uint8_t nm[4]; be32buf(nm, RH_ENDORSEMENT);
            cmd_begin(b, ST_SESSIONS, CC_PolicySecret); b_u32(b, RH_ENDORSEMENT); b_u32(b, s.h); auth_pw(b, "", 0); b_u16(b, 0); b_u16(b, 0); b_2b(b, ref, rl); b_u32(b, 0); Rsp r = run(b);
            c04_trpol(&s, CC_PolicySecret, r.rc); trhex("name", nm, 4); trhex("ref", ref, rl); tr_end(); break; }
        default: { c04_pol(b, &s, CC_PolicyAuthValue, 0, NULL, 0); break; }
        }
        uint8_t dg[32]; if (chance(40)) c04_getdigest(b, &s, dg);
    }
    uint8_t dg[32]; c04_getdigest(b, &s, dg);
    cmd_begin(b, ST_NO_SESSIONS, CC_FlushContext); b_u32(b, s.h); run(b); tr("sflush h=%u", s.h);
}
static void c04_policy_rounds(Buf *b, int rounds) {
    PolNv n; memset(&n, 0, sizeof n); n.idx = 0x01600010u; strcpy(n.auth, "pv1");
    HSess t, ps;
    for (int k = 0; k < 4; k++) c04_policy_chain(b, k % 2);
    /* the four branch digests and the OR over them, computed by the TPM in a trial session and recomputed by the model */
    if (c04_start(b, &t, RH_NULL, "", 3) != 0) return;
    t.is_policy = 1;
    for (int br = 0; br < BR_N; br++) {
        c04_pol(b, &t, CC_PolicyRestart, 0, NULL, 0);
        if (br == BR_W) { c04_pol(b, &t, CC_PolicyCommandCode, CC_NV_Write, NULL, 0); c04_pol(b, &t, CC_PolicyAuthValue, 0, NULL, 0); }
        else if (br == BR_R) c04_pol(b, &t, CC_PolicyPassword, 0, NULL, 0);
        else if (br == BR_C) c04_pol(b, &t, CC_PolicyCommandCode, CC_NV_ChangeAuth, NULL, 0);
        else if (br == BR_P) { c04_pcr_clean(b); c04_polpcr(b, &t, 0); }
        else if (br == BR_L) c04_pol_loc(b, &t, 0x02);
        else if (br == BR_X) c04_pol_pp(b, &t);
        else { c04_pol(b, &t, CC_PolicyAuthValue, 0, NULL, 0); c04_pol(b, &t, CC_PolicyCommandCode, CC_NV_UndefineSpaceSpecial, NULL, 0); }
        if (c04_getdigest(b, &t, n.d[br]) != 0) return;
    }
    c04_pol(b, &t, CC_PolicyRestart, 0, NULL, 0); c04_pol(b, &t, CC_PolicyOR, 0, (const uint8_t (*)[32])n.d, BR_N);
    if (c04_getdigest(b, &t, n.P) != 0) return;
    cmd_begin(b, ST_NO_SESSIONS, CC_FlushContext); b_u32(b, t.h); run(b); tr("sflush h=%u", t.h);
    uint8_t platname[4]; be32buf(platname, RH_PLATFORM);
    /* the platform hierarchy gets a policy: PolicyCommandCode(ClockRateAdjust) */
    uint8_t platpol[32]; int have_platpol = 0;
    { HSess t2; if (c04_start(b, &t2, RH_NULL, "", 3) == 0) { t2.is_policy = 1; c04_pol(b, &t2, CC_PolicyCommandCode, CC_ClockRateAdjust, NULL, 0);
          if (c04_getdigest(b, &t2, platpol) == 0) { cmd_begin(b, ST_SESSIONS, CC_SetPrimaryPolicy); b_u32(b, RH_PLATFORM); auth_pw(b, "", 0); b_2b(b, platpol, 32); b_u16(b, ALG_SHA256); have_platpol = run(b).rc == 0; }
          cmd_begin(b, ST_NO_SESSIONS, CC_FlushContext); b_u32(b, t2.h); run(b); tr("sflush h=%u", t2.h); } }
    tr_begin("ent handle=%u", RH_PLATFORM); trhex("name", platname, 4); trhex("auth", NULL, 0); if (have_platpol) trhex("policy", platpol, 32); tr_end();
    if (c04_start(b, &ps, RH_NULL, "", 1) != 0) return;
    ps.is_policy = 1;
    c04_poldefine(b, &n, &ps);
    if (!n.exists) return;
    HSess hs; int have_hs = c04_start(b, &hs, RH_NULL, "", 0) == 0;
    for (int i = 0; i < rounds; i++) {
        g_locality = 0; g_pp = 0;
        if (!n.exists) { c04_poldefine(b, &n, &ps); if (!n.exists) return; }
        if (have_platpol && chance(12)) {   /* a hierarchy authorized by its policy (SetPrimaryPolicy), by a wrong policy, by its empty password */
            int dev = chance(60) ? 0 : 1 + rnd(3);
            c04_pol(b, &ps, CC_PolicyRestart, 0, NULL, 0);
            if (dev != 1) c04_pol(b, &ps, CC_PolicyCommandCode, dev == 2 ? CC_NV_Read : CC_ClockRateAdjust, NULL, 0);
            if (dev == 3) c04_pol(b, &ps, CC_PolicyAuthValue, 0, NULL, 0);
            ASpec as1[1] = { { &ps, ps.needAuth ? M_HMAC_AUTH : M_EMPTY, "" } }; const uint8_t *nm1[1] = { platname }; int nl1[1] = { 4 }; uint32_t hh1[1] = { RH_PLATFORM }; uint8_t p1[1] = {0};
            int corrupt1 = chance(75) ? K_NONE : 1 + rnd(K_NCOUNT - 1); if (corrupt1 == K_AUTHVAL || corrupt1 == K_HMAC || corrupt1 == K_STALE_NONCE) corrupt1 = K_NONE;   /* nothing keyed to corrupt */
            c04_send(b, CC_ClockRateAdjust, 1, hh1, nm1, nl1, p1, 1, 1, as1, corrupt1, "pol-hierarchy");
            continue; }
        int br = chance(8) ? BR_D : chance(25) ? BR_P : chance(25) ? (chance(50) ? BR_L : BR_X) : rnd(3);
        int dev = chance(55) ? 0 : 1 + rnd(6);
        int corrupt = chance(70) ? K_NONE : 1 + rnd(K_NCOUNT - 1);
        int usecmd = chance(85) ? (br == BR_P || br == BR_L || br == BR_X ? BR_R : br) : rnd(4);               /* sometimes the session built for one command is used for another */
        c04_branch(b, &ps, &n, br, dev);
        int mode = ps.needPw ? M_PW_FIELD : ps.needAuth ? M_HMAC_AUTH : M_EMPTY;
        if (chance(6)) mode = rnd(5) == M_RS_PW ? M_EMPTY : rnd(3);   /* the wrong kind of proof for the session's state */
        ASpec as[2] = { { &ps, mode, n.auth }, { NULL, M_RS_PW, "" } };
        const uint8_t *names[2] = { n.name, platname }; int nl[2] = { n.nl, 4 }; uint32_t hh[2] = { n.idx, n.idx };
        if (chance(8) && have_hs) { as[0].s = &hs; as[0].mode = M_HMAC_AUTH; }          /* HMAC session where a policy may be required */
        else if (chance(5)) { as[0].s = NULL; as[0].mode = M_RS_PW; }                   /* password session */
        if (br == BR_L) g_locality = chance(50) ? 1 : rnd(5);       /* the command arrives at the admitted locality, or at another one */
        if (br == BR_X) g_pp = chance(60);                           /* physical presence asserted, or not */
        switch (usecmd) {
        case BR_W: { uint8_t p[8]; p[0] = 0; p[1] = 4; for (int q = 0; q < 4; q++) p[2 + q] = rnd(256); p[6] = 0; p[7] = 4 * rnd(4);
            names[1] = n.name; nl[1] = n.nl;
            Rsp r = c04_send(b, CC_NV_Write, 2, hh, names, nl, p, 8, 1, as, corrupt, "pol-nvwrite");
            if (r.rc == 0) memcpy(n.data + p[7], p + 2, 4);
            cmd_begin(b, ST_SESSIONS, CC_NV_Read); b_u32(b, n.idx); b_u32(b, n.idx); auth_pw(b, n.auth, strlen(n.auth)); b_u16(b, 16); b_u16(b, 0); Rsp rr = run(b);
            tr_begin("effect handle=%u cmd_rc=%u rc=%u", n.idx, r.rc, rr.rc); if (rr.rc == 0) trhex("actual", rr.p + 16, 16); tr_end();
            break; }
        case BR_R: { uint8_t p[4] = {0, 8, 0, (uint8_t)rnd(8)}; names[1] = n.name; nl[1] = n.nl;
            c04_send(b, CC_NV_Read, 2, hh, names, nl, p, 4, 1, as, corrupt, "pol-nvread"); break; }
        case BR_C: { char na[4]; na[0] = 'p'; na[1] = 'a' + rnd(20); na[2] = '0' + rnd(10); na[3] = 0; uint8_t p[5] = {0, 3, (uint8_t)na[0], (uint8_t)na[1], (uint8_t)na[2]};
            if (corrupt == K_PARAM) corrupt = K_NONE;   /* no HMAC protects the parameters in this branch: the harness would lose track of the value */
            c04_send(b, CC_NV_ChangeAuth, 1, hh, names, nl, p, 5, 1, as, corrupt, "pol-nvchangeauth");
            /* which value is in force now is decided by a password read with each candidate */
            cmd_begin(b, ST_SESSIONS, CC_NV_Read); b_u32(b, n.idx); b_u32(b, n.idx); auth_pw(b, na, 3); b_u16(b, 1); b_u16(b, 0); Rsp rr = run(b);
            tr_begin("auth what=probe-newauth corrupt=0 sh=0 rc=%u", rr.rc); trhex("req", b->p, b->n); trhex("rsp", rr.p, rr.len); tr_end();
            if (rr.rc == 0) strcpy(n.auth, na);
            break; }
        default: { hh[1] = RH_PLATFORM; if (as[0].mode == M_RS_PW && as[0].s == NULL) as[0].auth = n.auth;
            Rsp r = c04_send(b, CC_NV_UndefineSpaceSpecial, 2, hh, names, nl, NULL, 0, 2, as, corrupt, "pol-undefinespecial");
            cmd_begin(b, ST_NO_SESSIONS, CC_NV_ReadPublic); b_u32(b, n.idx); Rsp rr = run(b);
            tr("exists handle=%u cmd_rc=%u rc=%u", n.idx, r.rc, rr.rc);
            n.exists = rr.rc == 0; if (!n.exists) strcpy(n.auth, "pv1");
            break; }
        }
    }
    g_locality = 0; g_pp = 0;
}

static void scen_c04(int histories, int rounds) {
    Buf b = {0};
    for (int h = 0; h < histories; h++) {
        tr("hist %d", h);
        tpm2_fresh(h % 3 == 0 ? NULL : (h % 3 == 1 ? PROFILE_DEFAULT_V1 : PROFILE_CUSTOM)); tpm2_startup(&b, 0);
        char ownerAuth[8] = "ow1";
        /* ownerAuth := "ow1"; NV index with auth "nv1"; HMAC key with auth "k1" */
        cmd_begin(&b, ST_SESSIONS, CC_HierarchyChangeAuth); b_u32(&b, RH_OWNER); auth_pw(&b, "", 0); b_2b(&b, ownerAuth, 3); run(&b);
        uint32_t idx = 0x01600001u;
        cmd_begin(&b, ST_SESSIONS, CC_NV_DefineSpace); b_u32(&b, RH_OWNER); auth_pw(&b, ownerAuth, 3); b_2b(&b, "nv1", 3);
        b_u16(&b, 14); b_u32(&b, idx); b_u16(&b, ALG_SHA256); b_u32(&b, (1u << 2) | (1u << 18) | (1u << 25)); b_u16(&b, 0); b_u16(&b, 16); run(&b);
        cmd_begin(&b, ST_SESSIONS, CC_NV_Write); b_u32(&b, idx); b_u32(&b, idx); auth_pw(&b, "nv1", 3); b_2b(&b, "0123456789abcdef", 16); b_u16(&b, 0); run(&b);
        uint8_t nvname[34]; int nvnl = 0;
        { cmd_begin(&b, ST_NO_SESSIONS, CC_NV_ReadPublic); b_u32(&b, idx); Rsp r = run(&b); if (r.rc == 0) { uint16_t pl = g16(r.p + 10); nvnl = g16(r.p + 12 + pl); if (nvnl <= 34) memcpy(nvname, r.p + 14 + pl, nvnl); } }
        uint8_t key[16]; for (int i = 0; i < 16; i++) key[i] = rnd(256);
        uint32_t kh = 0; uint8_t kname[34]; int knl = 0;
        { Buf t = {0}; b_u16(&t, ALG_KEYEDHASH); b_u16(&t, ALG_SHA256); b_u32(&t, 0x00040452u); b_u16(&t, 0); b_u16(&t, ALG_HMAC); b_u16(&t, ALG_SHA256); b_u16(&t, 0);
          cmd_begin(&b, ST_SESSIONS, CC_CreatePrimary); b_u32(&b, RH_NULL); auth_pw(&b, "", 0); b_u16(&b, 4 + 2 + 16); b_2b(&b, "k1", 2); b_2b(&b, key, 16); b_2b(&b, t.p, t.n); b_u16(&b, 0); b_u32(&b, 0);
          Rsp r = run(&b); b_free(&t);
          if (r.rc == 0) { kh = g32(r.p + 10); Rd rd = rsp_params(&r, 1); uint16_t l; r_2b(&rd, &l); r_2b(&rd, &l); r_2b(&rd, &l); r_u16(&rd); r_u32(&rd); r_2b(&rd, &l); const uint8_t *nm = r_2b(&rd, &l); if (!rd.err && l <= 34) { memcpy(kname, nm, l); knl = l; } } }
        uint8_t ownname[4]; be32buf(ownname, RH_OWNER);
        uint8_t endname[4]; be32buf(endname, RH_ENDORSEMENT);
        tr_begin("ent handle=%u", RH_OWNER); trhex("name", ownname, 4); trhex("auth", (uint8_t *)ownerAuth, 3); tr_end();
        tr_begin("ent handle=%u", RH_ENDORSEMENT); trhex("name", endname, 4); trhex("auth", NULL, 0); tr_end();
        tr_begin("ent handle=%u", idx); trhex("name", nvname, nvnl); trhex("auth", (uint8_t *)"nv1", 3); trhex("nv", (uint8_t *)"0123456789abcdef", 16); tr_end();
        if (kh) { tr_begin("ent handle=%u", kh); trhex("name", kname, knl); trhex("auth", (uint8_t *)"k1", 2); tr_end(); }
        /* the same key as a persistent object, and a PCR as an entity (authValue empty, not subject to DA) */
        uint32_t pkh = 0;
        uint8_t pkname[34]; int pknl = 0;
        { Buf t = {0}; b_u16(&t, ALG_KEYEDHASH); b_u16(&t, ALG_SHA256); b_u32(&t, 0x00040472u); b_u16(&t, 0); b_u16(&t, ALG_HMAC); b_u16(&t, ALG_SHA256); b_u16(&t, 0);
          cmd_begin(&b, ST_SESSIONS, CC_CreatePrimary); b_u32(&b, RH_OWNER); auth_pw(&b, ownerAuth, 3); b_u16(&b, 4 + 2); b_2b(&b, "k1", 2); b_u16(&b, 0); b_2b(&b, t.p, t.n); b_u16(&b, 0); b_u32(&b, 0);
          Rsp r = run(&b); b_free(&t);
          if (r.rc == 0) { uint32_t th = g32(r.p + 10); Rd rd = rsp_params(&r, 1); uint16_t l; r_2b(&rd, &l); r_2b(&rd, &l); r_2b(&rd, &l); r_u16(&rd); r_u32(&rd); r_2b(&rd, &l); const uint8_t *nm = r_2b(&rd, &l);
              if (!rd.err && l <= 34) { memcpy(pkname, nm, l); pknl = l; }
              cmd_begin(&b, ST_SESSIONS, CC_EvictControl); b_u32(&b, RH_OWNER); b_u32(&b, th); auth_pw(&b, ownerAuth, 3); b_u32(&b, 0x81000010u);
              if (run(&b).rc == 0 && pknl) { pkh = 0x81000010u; tr_begin("ent handle=%u", pkh); trhex("name", pkname, pknl); trhex("auth", (uint8_t *)"k1", 2); tr_end(); }
              cmd_begin(&b, ST_NO_SESSIONS, CC_FlushContext); b_u32(&b, th); run(&b); } }
        /* a child key under a storage parent: its authValue is changed by ObjectChangeAuth during the history */
        uint32_t parh = 0, ch = 0; uint8_t parname[34], cname[34], cpub[128]; int parnl = 0, cnl = 0, cpubl = 0; char cauth[8] = "c1";
        { Buf t = {0}; tmpl_ecc_sign(&t, 1, NULL, 0);
          cmd_begin(&b, ST_SESSIONS, CC_CreatePrimary); b_u32(&b, RH_OWNER); auth_pw(&b, ownerAuth, 3); b_u16(&b, 4); b_u16(&b, 0); b_u16(&b, 0); b_2b(&b, t.p, t.n); b_u16(&b, 0); b_u32(&b, 0);
          Rsp r = run(&b);
          if (r.rc == 0) { parh = g32(r.p + 10); Rd rd = rsp_params(&r, 1); uint16_t l; r_2b(&rd, &l); r_2b(&rd, &l); r_2b(&rd, &l); r_u16(&rd); r_u32(&rd); r_2b(&rd, &l); const uint8_t *nm = r_2b(&rd, &l);
              if (!rd.err && l <= 34) { memcpy(parname, nm, l); parnl = l; } else parh = 0;
              /* three object slots: the parent lives as a persistent object and is loaded only while a command uses it */
              if (parh) { uint32_t th = parh; cmd_begin(&b, ST_SESSIONS, CC_EvictControl); b_u32(&b, RH_OWNER); b_u32(&b, th); auth_pw(&b, ownerAuth, 3); b_u32(&b, 0x81000011u);
                  parh = run(&b).rc == 0 ? 0x81000011u : 0; cmd_begin(&b, ST_NO_SESSIONS, CC_FlushContext); b_u32(&b, th); run(&b); } }
          if (parh) { b_reset(&t); b_u16(&t, ALG_KEYEDHASH); b_u16(&t, ALG_SHA256); b_u32(&t, 0x00040472u); b_u16(&t, 0); b_u16(&t, ALG_HMAC); b_u16(&t, ALG_SHA256); b_u16(&t, 0);
              cmd_begin(&b, ST_SESSIONS, CC_Create); b_u32(&b, parh); auth_pw(&b, "", 0); b_u16(&b, 4 + 2); b_2b(&b, cauth, 2); b_u16(&b, 0); b_2b(&b, t.p, t.n); b_u16(&b, 0); b_u32(&b, 0);
              r = run(&b);
              if (r.rc == 0) { Rd rd = rsp_params(&r, 0); uint16_t prl, pul; const uint8_t *p1 = r_2b(&rd, &prl); const uint8_t *p2 = r_2b(&rd, &pul); uint8_t priv[300];
                  if (!rd.err && prl <= 300 && pul <= 128) { memcpy(priv, p1, prl); memcpy(cpub, p2, pul); cpubl = pul;
                      cmd_begin(&b, ST_SESSIONS, CC_Load); b_u32(&b, parh); auth_pw(&b, "", 0); b_2b(&b, priv, prl); b_2b(&b, cpub, cpubl); r = run(&b);
                      if (r.rc == 0) { ch = g32(r.p + 10); Rd r2 = rsp_params(&r, 1); uint16_t l; const uint8_t *nm = r_2b(&r2, &l); if (!r2.err && l <= 34) { memcpy(cname, nm, l); cnl = l; } else ch = 0; } } } }
          b_free(&t);
          if (parh) { tr_begin("ent handle=%u", parh); trhex("name", parname, parnl); trhex("auth", NULL, 0); tr_end(); }
          if (ch) { tr_begin("ent handle=%u", ch); trhex("name", cname, cnl); trhex("auth", (uint8_t *)cauth, 2); tr_end(); } }
        uint8_t pcrname[4]; be32buf(pcrname, 16);
        tr_begin("ent handle=%u", 16); trhex("name", pcrname, 4); trhex("auth", NULL, 0); tr_end();
        HSess su, sb; int have_su = c04_start(&b, &su, RH_NULL, "", 0) == 0;     /* unbound */
        int have_sb = c04_start(&b, &sb, RH_OWNER, ownerAuth, 0) == 0;          /* bound to owner */
        int sb_bound_valid = 1;
        uint8_t nvdata[16]; memcpy(nvdata, "0123456789abcdef", 16);
        for (int i = 0; i < rounds && have_su && have_sb; i++) {
            int corrupt = chance(45) ? K_NONE : 1 + rnd(K_NCOUNT - 1);
            switch (rnd(12)) {
            case 0: { /* NV_Read with the index authValue through the unbound HMAC session */
                uint8_t p[4] = {0, 8, 0, (uint8_t)rnd(8)};
                c04_authcmd(&b, &su, CC_NV_Read, idx, nvname, nvnl, idx, nvname, nvnl, p, 4, "nv1", 0, corrupt, "nvread-unbound"); break; }
            case 1: { /* NV_Write through the unbound session; afterwards a password read shows whether it took effect */
                uint8_t p[2 + 4 + 2]; p[0] = 0; p[1] = 4; for (int q = 0; q < 4; q++) p[2 + q] = rnd(256); p[6] = 0; p[7] = 4 * rnd(4);
                Rsp r = c04_authcmd(&b, &su, CC_NV_Write, idx, nvname, nvnl, idx, nvname, nvnl, p, 8, "nv1", 0, corrupt, "nvwrite-unbound");
                if (r.rc == 0) memcpy(nvdata + p[7], p + 2, 4);
                cmd_begin(&b, ST_SESSIONS, CC_NV_Read); b_u32(&b, idx); b_u32(&b, idx); auth_pw(&b, "nv1", 3); b_u16(&b, 16); b_u16(&b, 0); Rsp rr = run(&b);
                tr_begin("effect handle=%u cmd_rc=%u rc=%u", idx, r.rc, rr.rc); if (rr.rc == 0) trhex("actual", rr.p + 16, 16); tr_end();
                break; }
            case 2: { /* owner-authorised command through the session bound to owner */
                uint8_t p[1] = {0};
                c04_authcmd(&b, &sb, CC_ClockRateAdjust, RH_OWNER, ownname, 4, 0, NULL, 0, p, 1, ownerAuth, sb_bound_valid, corrupt, sb_bound_valid ? "owner-bound" : "owner-bound-stale"); break; }
            case 3: { /* owner-authorised command through the unbound session */
                uint8_t p[1] = {0};
                c04_authcmd(&b, &su, CC_ClockRateAdjust, RH_OWNER, ownname, 4, 0, NULL, 0, p, 1, ownerAuth, 0, corrupt, "owner-unbound"); break; }
            case 4: { /* key use: TPM2_HMAC with the key's authValue */
                if (!kh) break;
                uint8_t p[2 + 5 + 2] = {0, 5, 'h', 'e', 'l', 'l', 'o', 0, 0x0B};
                c04_authcmd(&b, &su, CC_HMAC, kh, kname, knl, 0, NULL, 0, p, 9, "k1", 0, corrupt, "key-hmac"); break; }
            case 8: { /* the persistent copy of the key */
                if (!pkh) break;
                uint8_t p[2 + 5 + 2] = {0, 5, 'w', 'o', 'r', 'l', 'd', 0, 0x0B};
                c04_authcmd(&b, &su, CC_HMAC, pkh, pkname, pknl, 0, NULL, 0, p, 9, "k1", 0, corrupt, "pkey-hmac"); break; }
            case 9: { /* a PCR as authorized entity, through the session bound to the owner (its key is the session key alone) */
                uint8_t p[4 + 2 + 32]; p[0] = 0; p[1] = 0; p[2] = 0; p[3] = 1; p[4] = 0; p[5] = 0x0B; for (int q = 0; q < 32; q++) p[6 + q] = rnd(256);
                if (corrupt == K_AUTHVAL && sb_bound_valid) corrupt = K_HMAC;
                c04_authcmd(&b, &sb, CC_PCR_Extend, 16, pcrname, 4, 0, NULL, 0, p, 38, "", 0, corrupt, "pcr-extend"); break; }
            case 10: { /* the child key with its current authValue */
                if (!ch) break;
                uint8_t p[2 + 5 + 2] = {0, 5, 'c', 'h', 'i', 'l', 'd', 0, 0x0B};
                c04_authcmd(&b, &su, CC_HMAC, ch, cname, cnl, 0, NULL, 0, p, 9, cauth, 0, corrupt, "ckey-hmac"); break; }
            case 11: { /* ObjectChangeAuth (ADMIN role, satisfied by the authValue): the new private area, loaded, takes the new value only */
                if (!ch || chance(50)) break;
                char na[4]; na[0] = 'c'; na[1] = 'a' + rnd(20); na[2] = '0' + rnd(10); na[3] = 0;
                uint8_t p[2 + 3]; p[0] = 0; p[1] = 3; memcpy(p + 2, na, 3);
                Rsp r = c04_authcmd(&b, &su, CC_ObjectChangeAuth, ch, cname, cnl, parh, parname, parnl, p, 5, cauth, 0, corrupt, "objchangeauth");
                if (r.rc != 0 || r.tag != ST_SESSIONS) break;
                uint16_t prl = g16(r.p + 14); uint8_t priv[300]; if (prl > 300 || 16u + prl > r.len) break; memcpy(priv, r.p + 16, prl);
                /* the object that stays loaded keeps its old value (three object slots: it has to go before the new one is loaded) */
                { cmd_begin(&b, ST_SESSIONS, CC_HMAC); b_u32(&b, ch); auth_pw(&b, cauth, strlen(cauth)); b_2b(&b, "x", 1); b_u16(&b, ALG_SHA256); Rsp hr = run(&b);
                  tr_begin("auth what=objchange-old-object-old-value corrupt=0 sh=0 rc=%u", hr.rc); trhex("req", b.p, b.n); trhex("rsp", hr.p, hr.len); tr_end(); }
                cmd_begin(&b, ST_NO_SESSIONS, CC_FlushContext); b_u32(&b, ch); run(&b); ch = 0;
                cmd_begin(&b, ST_SESSIONS, CC_Load); b_u32(&b, parh); auth_pw(&b, "", 0); b_2b(&b, priv, prl); b_2b(&b, cpub, cpubl); Rsp lr = run(&b);
                tr("objchange load_rc=%u", lr.rc);
                if (lr.rc != 0) break;
                uint32_t nh = g32(lr.p + 10);
                tr_begin("ent handle=%u", nh); trhex("name", cname, cnl); trhex("auth", (uint8_t *)na, 3); tr_end();
                /* the new one refuses the old value and takes the new one */
                for (int which = 1; which < 3; which++) { const char *pw = which == 1 ? cauth : na;
                    cmd_begin(&b, ST_SESSIONS, CC_HMAC); b_u32(&b, nh); auth_pw(&b, pw, strlen(pw)); b_2b(&b, "x", 1); b_u16(&b, ALG_SHA256); Rsp hr = run(&b);
                    tr_begin("auth what=objchange-%s corrupt=%d sh=0 rc=%u", which == 1 ? "new-object-old-value" : "new-object-new-value", which == 1 ? K_AUTHVAL : 0, hr.rc); trhex("req", b.p, b.n); trhex("rsp", hr.p, hr.len); tr_end(); }
                ch = nh; strcpy(cauth, na); break; }
            case 5: { /* ownerAuth changes (password session); the bound session is no longer bound to the *current* owner auth */
                if (chance(85)) break;
                char na[4]; na[0] = 'o'; na[1] = 'a' + rnd(20); na[2] = '0' + rnd(10); na[3] = 0;
                cmd_begin(&b, ST_SESSIONS, CC_HierarchyChangeAuth); b_u32(&b, RH_OWNER); auth_pw(&b, ownerAuth, strlen(ownerAuth)); b_2b(&b, na, 3);
                Rsp r = run(&b);
                if (r.rc == 0 && chance(50)) {   /* a fresh session bound to the new value */
                    strcpy(ownerAuth, na); tr_begin("authchange handle=%u", RH_OWNER); trhex("auth", (uint8_t *)na, 3); tr_end();
                    cmd_begin(&b, ST_NO_SESSIONS, CC_FlushContext); b_u32(&b, sb.h); run(&b); tr("sflush h=%u", sb.h);
                    have_sb = c04_start(&b, &sb, RH_OWNER, ownerAuth, 0) == 0; sb_bound_valid = 1;
                } else
                if (r.rc == 0) { strcpy(ownerAuth, na); sb_bound_valid = 0; tr_begin("authchange handle=%u", RH_OWNER); trhex("auth", (uint8_t *)na, 3); tr_end(); }
                break; }
            case 6: { /* password authorization: exact, wrong, trailing zeros (stripped by the TPM), prefix */
                uint8_t pw[8]; int pl = 3; memcpy(pw, "nv1", 3); int v = rnd(5);
                if (v == 1) pw[rnd(3)] ^= 1 << rnd(8); else if (v == 2) { pw[3] = 0; pw[4] = 0; pl = 5; } else if (v == 3) pl = 2; else if (v == 4) { pw[3] = 'x'; pl = 4; }
                cmd_begin(&b, ST_SESSIONS, CC_NV_Read); b_u32(&b, idx); b_u32(&b, idx); auth_pw(&b, (char *)pw, pl); b_u16(&b, 8); b_u16(&b, 0);
                Rsp r = run(&b); tr_begin("auth what=password corrupt=%d sh=0 rc=%u", v == 0 || v == 2 ? 0 : K_AUTHVAL, r.rc); trhex("req", b.p, b.n); trhex("rsp", r.p, r.len); tr_end();
                break; }
            default: { /* a command with two authorised handles sent with ONE session: the second authorization is missing */
                if (!kh) break;
                uint8_t q[4] = {0, 0, 0, 0x10};   /* qualifyingData empty, inScheme NULL */
                cmd_begin(&b, ST_SESSIONS, 0x14C /* GetTime */); b_u32(&b, RH_ENDORSEMENT); b_u32(&b, kh); auth_pw(&b, "", 0); b_bytes(&b, q, 4);
                Rsp r = run(&b); tr_begin("auth what=twoauth-one-session corrupt=%d sh=0 rc=%u", K_MISSING, r.rc); trhex("req", b.p, b.n); trhex("rsp", r.p, r.len); tr_end();
                break; }
            }
        }
        if (ch) { cmd_begin(&b, ST_NO_SESSIONS, CC_FlushContext); b_u32(&b, ch); run(&b); }
        cmd_begin(&b, ST_NO_SESSIONS, CC_FlushContext); b_u32(&b, su.h); run(&b); cmd_begin(&b, ST_NO_SESSIONS, CC_FlushContext); b_u32(&b, sb.h); run(&b);
        tr("sflush h=%u", su.h); tr("sflush h=%u", sb.h);
        /* phase 2: sessions with parameter encryption — XOR and AES-CFB; unsalted, salted (ECDH against an ECC key in the TPM), bound+salted */
        { uint8_t kx[32], ky[32]; uint32_t saltkey = c04_saltkey(&b, ownerAuth, kx, ky); HSess se[3]; int have_se[3];
          int kind0 = rnd(2);
          have_se[0] = c04_start_ext(&b, &se[0], RH_NULL, "", RH_NULL, NULL, NULL, 1 + kind0) == 0;
          have_se[1] = saltkey && c04_start_ext(&b, &se[1], RH_NULL, "", saltkey, kx, ky, 2 - kind0) == 0;
          have_se[2] = saltkey && c04_start_ext(&b, &se[2], RH_OWNER, ownerAuth, saltkey, kx, ky, 1 + rnd(2)) == 0;
          if (saltkey) { cmd_begin(&b, ST_NO_SESSIONS, CC_FlushContext); b_u32(&b, saltkey); run(&b); }
          for (int i = 0; i < rounds / 3; i++) { int k = rnd(3); if (have_se[k]) c04_enc_nv(&b, &se[k], idx, nvname, nvnl, "nv1", chance(50), nvdata, chance(15)); }
          for (int k = 0; k < 3; k++) if (have_se[k]) { cmd_begin(&b, ST_NO_SESSIONS, CC_FlushContext); b_u32(&b, se[k].h); run(&b); tr("sflush h=%u", se[k].h); } }
        c04_policy_rounds(&b, rounds / 2);
    }
    b_free(&b);
}
