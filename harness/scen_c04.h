/* C04: authorization is enforced — the harness is the client side of the session protocol (OpenSSL),
 * the Lean checker recomputes everything independently (Crypto.Sha: cpHash, rpHash, HMAC, KDFa). */
typedef struct { uint32_t h; uint8_t nonceTPM[32]; uint8_t nonceCaller[32]; uint8_t key[32]; int keylen; uint32_t bind; char bindAuth[8]; uint8_t stale[32]; int have_stale; } HSess;

static void c04_sha256(const uint8_t *a, size_t an, const uint8_t *b2, size_t bn, const uint8_t *c, size_t cn, uint8_t out[32]) {
    EVP_MD_CTX *m = EVP_MD_CTX_new(); EVP_DigestInit_ex(m, EVP_sha256(), NULL);
    if (an) EVP_DigestUpdate(m, a, an); if (bn) EVP_DigestUpdate(m, b2, bn); if (cn) EVP_DigestUpdate(m, c, cn);
    unsigned l = 32; EVP_DigestFinal_ex(m, out, &l); EVP_MD_CTX_free(m);
}
static void c04_hmac(const uint8_t *key, int kl, const uint8_t *msg, size_t n, uint8_t out[32]) { unsigned l = 32; HMAC(EVP_sha256(), key, kl, msg, n, out, &l); }
static void c04_kdfa(const uint8_t *key, int kl, const char *label, const uint8_t *u, int ul, const uint8_t *v, int vl, uint8_t out[32]) {
    Buf m = {0}; b_u32(&m, 1); b_bytes(&m, label, strlen(label) + 1); b_bytes(&m, u, ul); b_bytes(&m, v, vl); b_u32(&m, 256);
    c04_hmac(key, kl, m.p, m.n, out); b_free(&m);
}
/* start an HMAC (type 0) or policy (type 1) session, optionally bound to `bind` whose authValue is bindAuth */
static int c04_start(Buf *b, HSess *s, uint32_t bind, const char *bindAuth, int type) {
    memset(s, 0, sizeof *s);
    for (int i = 0; i < 32; i++) s->nonceCaller[i] = rnd(256);
    cmd_begin(b, ST_NO_SESSIONS, CC_StartAuthSession); b_u32(b, RH_NULL); b_u32(b, bind); b_2b(b, s->nonceCaller, 32); b_u16(b, 0); b_u8(b, type); b_u16(b, ALG_NULL); b_u16(b, ALG_SHA256);
    Rsp r = run(b);
    if (r.rc != 0 || r.len < 16 + 32) { tr("sstart rc=%u", r.rc); return -1; }
    s->h = g32(r.p + 10); memcpy(s->nonceTPM, r.p + 16, 32); s->bind = bind; strcpy(s->bindAuth, bindAuth);
    if (bind != RH_NULL) { c04_kdfa((const uint8_t *)bindAuth, (int)strlen(bindAuth), "ATH", s->nonceTPM, 32, s->nonceCaller, 32, s->key); s->keylen = 32; }
    tr_begin("sstart rc=0 h=%u type=%d bind=%u", s->h, type, bind); trhex("nc", s->nonceCaller, 32); trhex("nt", s->nonceTPM, 32); trhex("skey", s->key, s->keylen); tr_end();
    return 0;
}
/* what to corrupt in an otherwise correct authorization */
enum { K_NONE, K_HMAC, K_AUTHVAL, K_STALE_NONCE, K_PARAM, K_ATTR, K_NAME, K_MISSING, K_NCOUNT };

/* one command with one handle needing USER auth (plus optional extra handle `h2` with name `name2`), authorised by session s.
 * entityAuth: the auth value of the entity; boundToEntity: the session is bound to exactly this entity and its auth has not changed. */
static Rsp c04_authcmd(Buf *b, HSess *s, uint32_t cc, uint32_t h1, const uint8_t *name1, int n1l, uint32_t h2, const uint8_t *name2, int n2l,
                       const uint8_t *params, int pl, const char *entityAuth, int boundToEntity, int corrupt, const char *what) {
    uint8_t cph[32], hm[32], key[64]; int kl = 0;
    Buf m = {0};
    /* cpHash = H(cc || names || params) */
    b_u32(&m, cc); b_bytes(&m, name1, n1l); if (h2) b_bytes(&m, name2, n2l); b_bytes(&m, params, pl);
    if (corrupt == K_NAME) m.p[4 + rnd(n1l)] ^= 1 << rnd(8);
    c04_sha256(m.p, m.n, NULL, 0, NULL, 0, cph); b_reset(&m);
    memcpy(key, s->key, s->keylen); kl = s->keylen;
    const char *av = corrupt == K_AUTHVAL ? "WRONG" : entityAuth;
    if (!boundToEntity) { memcpy(key + kl, av, strlen(av)); kl += (int)strlen(av); }
    else if (corrupt == K_AUTHVAL) { key[0] ^= 1; }
    uint8_t oldNonceTPM[32]; memcpy(oldNonceTPM, s->nonceTPM, 32);
    uint8_t nc[32]; for (int i = 0; i < 32; i++) nc[i] = rnd(256);
    uint8_t attrs = 0x01;   /* continueSession */
    const uint8_t *ntpm = s->nonceTPM;
    if (corrupt == K_STALE_NONCE) { if (!s->have_stale) corrupt = K_HMAC; else ntpm = s->stale; }
    b_bytes(&m, cph, 32); b_bytes(&m, nc, 32); b_bytes(&m, ntpm, 32); b_u8(&m, attrs);
    c04_hmac(key, kl, m.p, m.n, hm); b_free(&m);
    if (corrupt == K_HMAC) hm[rnd(32)] ^= 1 << rnd(8);
    /* assemble */
    Buf pm = {0}; b_bytes(&pm, params, pl);
    if (corrupt == K_PARAM && pl > 0) pm.p[rnd(pl)] ^= 1 << rnd(8);
    uint32_t hh1 = h1;
    if (corrupt == K_MISSING) { cmd_begin(b, ST_NO_SESSIONS, cc); b_u32(b, hh1); if (h2) b_u32(b, h2); b_bytes(b, pm.p, pm.n); }
    else {
        cmd_begin(b, ST_SESSIONS, cc); b_u32(b, hh1); if (h2) b_u32(b, h2);
        b_u32(b, 4 + 2 + 32 + 1 + 2 + 32); b_u32(b, s->h); b_2b(b, nc, 32); b_u8(b, corrupt == K_ATTR ? (attrs | 0x80) : attrs); b_2b(b, hm, 32);
        b_bytes(b, pm.p, pm.n);
    }
    Rsp r = run(b);
    tr_begin("auth what=%s corrupt=%d sh=%u rc=%u", what, corrupt, s->h, r.rc); trhex("req", b->p, b->n); trhex("rsp", r.p, r.len); tr_end();
    if (r.rc == 0 && r.tag == ST_SESSIONS) {
        uint32_t psz = g32(r.p + 10); const uint8_t *sa = r.p + 14 + psz;
        if (14 + psz + 2 + 32 + 1 + 2 + 32 <= r.len && g16(sa) == 32) { memcpy(s->stale, oldNonceTPM, 32); s->have_stale = 1; memcpy(s->nonceTPM, sa + 2, 32); }
    }
    memcpy(s->nonceCaller, nc, 32);
    b_free(&pm);
    return r;
}
static void be32buf(uint8_t *p, uint32_t v) { p[0] = v >> 24; p[1] = v >> 16; p[2] = v >> 8; p[3] = v; }

static void scen_c04(int histories, int rounds) {
    Buf b = {0};
    for (int h = 0; h < histories; h++) {
        tr("hist %d", h);
        tpm2_fresh(h % 3 == 0 ? NULL : (h % 3 == 1 ? PROFILE_DEFAULT_V1 : PROFILE_CUSTOM)); tpm2_startup(&b, 0);
        char ownerAuth[8] = "ow1";
        /* ownerAuth := "ow1"; NV index with auth "nv1"; HMAC key with auth "k1" */
        cmd_begin(&b, ST_SESSIONS, CC_HierarchyChangeAuth); b_u32(&b, RH_OWNER); auth_pw(&b, "", 0); b_2b(&b, ownerAuth, 3); run(&b);
        uint32_t idx = 0x01600001u;
        cmd_begin(&b, ST_SESSIONS, CC_NV_DefineSpace); b_u32(&b, RH_OWNER); auth_pw(&b, ownerAuth, 3); b_2b(&b, "nv1", 3);
        b_u16(&b, 14); b_u32(&b, idx); b_u16(&b, ALG_SHA256); b_u32(&b, (1u << 2) | (1u << 18) | (1u << 25)); b_u16(&b, 0); b_u16(&b, 16); run(&b);
        cmd_begin(&b, ST_SESSIONS, CC_NV_Write); b_u32(&b, idx); b_u32(&b, idx); auth_pw(&b, "nv1", 3); b_2b(&b, "0123456789abcdef", 16); b_u16(&b, 0); run(&b);
        uint8_t nvname[34]; int nvnl = 0;
        { cmd_begin(&b, ST_NO_SESSIONS, CC_NV_ReadPublic); b_u32(&b, idx); Rsp r = run(&b); if (r.rc == 0) { uint16_t pl = g16(r.p + 10); nvnl = g16(r.p + 12 + pl); if (nvnl <= 34) memcpy(nvname, r.p + 14 + pl, nvnl); } }
        uint8_t key[16]; for (int i = 0; i < 16; i++) key[i] = rnd(256);
        uint32_t kh = 0; uint8_t kname[34]; int knl = 0;
        { Buf t = {0}; b_u16(&t, ALG_KEYEDHASH); b_u16(&t, ALG_SHA256); b_u32(&t, 0x00040452u); b_u16(&t, 0); b_u16(&t, ALG_HMAC); b_u16(&t, ALG_SHA256); b_u16(&t, 0);
          cmd_begin(&b, ST_SESSIONS, CC_CreatePrimary); b_u32(&b, RH_NULL); auth_pw(&b, "", 0); b_u16(&b, 4 + 2 + 16); b_2b(&b, "k1", 2); b_2b(&b, key, 16); b_2b(&b, t.p, t.n); b_u16(&b, 0); b_u32(&b, 0);
          Rsp r = run(&b); b_free(&t);
          if (r.rc == 0) { kh = g32(r.p + 10); Rd rd = rsp_params(&r, 1); uint16_t l; r_2b(&rd, &l); r_2b(&rd, &l); r_2b(&rd, &l); r_u16(&rd); r_u32(&rd); r_2b(&rd, &l); const uint8_t *nm = r_2b(&rd, &l); if (!rd.err && l <= 34) { memcpy(kname, nm, l); knl = l; } } }
        uint8_t ownname[4]; be32buf(ownname, RH_OWNER);
        uint8_t endname[4]; be32buf(endname, RH_ENDORSEMENT);
        tr_begin("ent handle=%u", RH_OWNER); trhex("name", ownname, 4); trhex("auth", (uint8_t *)ownerAuth, 3); tr_end();
        tr_begin("ent handle=%u", RH_ENDORSEMENT); trhex("name", endname, 4); trhex("auth", NULL, 0); tr_end();
        tr_begin("ent handle=%u", idx); trhex("name", nvname, nvnl); trhex("auth", (uint8_t *)"nv1", 3); trhex("nv", (uint8_t *)"0123456789abcdef", 16); tr_end();
        if (kh) { tr_begin("ent handle=%u", kh); trhex("name", kname, knl); trhex("auth", (uint8_t *)"k1", 2); tr_end(); }
        HSess su, sb; int have_su = c04_start(&b, &su, RH_NULL, "", 0) == 0;     /* unbound */
        int have_sb = c04_start(&b, &sb, RH_OWNER, ownerAuth, 0) == 0;          /* bound to owner */
        int sb_bound_valid = 1;
        uint8_t nvdata[16]; memcpy(nvdata, "0123456789abcdef", 16);
        for (int i = 0; i < rounds && have_su && have_sb; i++) {
            int corrupt = chance(45) ? K_NONE : 1 + rnd(K_NCOUNT - 1);
            switch (rnd(8)) {
            case 0: { /* NV_Read with the index authValue through the unbound HMAC session */
                uint8_t p[4] = {0, 8, 0, (uint8_t)rnd(8)};
                c04_authcmd(&b, &su, CC_NV_Read, idx, nvname, nvnl, idx, nvname, nvnl, p, 4, "nv1", 0, corrupt, "nvread-unbound"); break; }
            case 1: { /* NV_Write through the unbound session; afterwards a password read shows whether it took effect */
                uint8_t p[2 + 4 + 2]; p[0] = 0; p[1] = 4; for (int q = 0; q < 4; q++) p[2 + q] = rnd(256); p[6] = 0; p[7] = 4 * rnd(4);
                Rsp r = c04_authcmd(&b, &su, CC_NV_Write, idx, nvname, nvnl, idx, nvname, nvnl, p, 8, "nv1", 0, corrupt, "nvwrite-unbound");
                if (r.rc == 0) memcpy(nvdata + p[7], p + 2, 4);
                cmd_begin(&b, ST_SESSIONS, CC_NV_Read); b_u32(&b, idx); b_u32(&b, idx); auth_pw(&b, "nv1", 3); b_u16(&b, 16); b_u16(&b, 0); Rsp rr = run(&b);
                tr_begin("effect handle=%u cmd_rc=%u rc=%u", idx, r.rc, rr.rc); if (rr.rc == 0) trhex("actual", rr.p + 16, 16); tr_end();
                break; }
            case 2: { /* owner-authorised command through the session bound to owner */
                uint8_t p[1] = {0};
                c04_authcmd(&b, &sb, CC_ClockRateAdjust, RH_OWNER, ownname, 4, 0, NULL, 0, p, 1, ownerAuth, sb_bound_valid, corrupt, sb_bound_valid ? "owner-bound" : "owner-bound-stale"); break; }
            case 3: { /* owner-authorised command through the unbound session */
                uint8_t p[1] = {0};
                c04_authcmd(&b, &su, CC_ClockRateAdjust, RH_OWNER, ownname, 4, 0, NULL, 0, p, 1, ownerAuth, 0, corrupt, "owner-unbound"); break; }
            case 4: { /* key use: TPM2_HMAC with the key's authValue */
                if (!kh) break;
                uint8_t p[2 + 5 + 2] = {0, 5, 'h', 'e', 'l', 'l', 'o', 0, 0x0B};
                c04_authcmd(&b, &su, CC_HMAC, kh, kname, knl, 0, NULL, 0, p, 9, "k1", 0, corrupt, "key-hmac"); break; }
            case 5: { /* ownerAuth changes (password session); the bound session is no longer bound to the *current* owner auth */
                if (chance(85)) break;
                char na[4]; na[0] = 'o'; na[1] = 'a' + rnd(20); na[2] = '0' + rnd(10); na[3] = 0;
                cmd_begin(&b, ST_SESSIONS, CC_HierarchyChangeAuth); b_u32(&b, RH_OWNER); auth_pw(&b, ownerAuth, strlen(ownerAuth)); b_2b(&b, na, 3);
                Rsp r = run(&b);
                if (r.rc == 0 && chance(50)) {   /* a fresh session bound to the new value */
                    strcpy(ownerAuth, na); tr_begin("authchange handle=%u", RH_OWNER); trhex("auth", (uint8_t *)na, 3); tr_end();
                    cmd_begin(&b, ST_NO_SESSIONS, CC_FlushContext); b_u32(&b, sb.h); run(&b); tr("sflush h=%u", sb.h);
                    have_sb = c04_start(&b, &sb, RH_OWNER, ownerAuth, 0) == 0; sb_bound_valid = 1;
                } else
                if (r.rc == 0) { strcpy(ownerAuth, na); sb_bound_valid = 0; tr_begin("authchange handle=%u", RH_OWNER); trhex("auth", (uint8_t *)na, 3); tr_end(); }
                break; }
            case 6: { /* password authorization: exact, wrong, trailing zeros (stripped by the TPM), prefix */
                uint8_t pw[8]; int pl = 3; memcpy(pw, "nv1", 3); int v = rnd(5);
                if (v == 1) pw[rnd(3)] ^= 1 << rnd(8); else if (v == 2) { pw[3] = 0; pw[4] = 0; pl = 5; } else if (v == 3) pl = 2; else if (v == 4) { pw[3] = 'x'; pl = 4; }
                cmd_begin(&b, ST_SESSIONS, CC_NV_Read); b_u32(&b, idx); b_u32(&b, idx); auth_pw(&b, (char *)pw, pl); b_u16(&b, 8); b_u16(&b, 0);
                Rsp r = run(&b); tr_begin("auth what=password corrupt=%d sh=0 rc=%u", v == 0 || v == 2 ? 0 : K_AUTHVAL, r.rc); trhex("req", b.p, b.n); trhex("rsp", r.p, r.len); tr_end();
                break; }
            default: { /* a command with two authorised handles sent with ONE session: the second authorization is missing */
                if (!kh) break;
                uint8_t q[4] = {0, 0, 0, 0x10};   /* qualifyingData empty, inScheme NULL */
                cmd_begin(&b, ST_SESSIONS, 0x14C /* GetTime */); b_u32(&b, RH_ENDORSEMENT); b_u32(&b, kh); auth_pw(&b, "", 0); b_bytes(&b, q, 4);
                Rsp r = run(&b); tr_begin("auth what=twoauth-one-session corrupt=%d sh=0 rc=%u", K_MISSING, r.rc); trhex("req", b.p, b.n); trhex("rsp", r.p, r.len); tr_end();
                break; }
            }
        }
    }
    b_free(&b);
}
