/* C08: dictionary-attack accounting (DA.c, SessionProcess.c, DictionaryCommands.c) under a virtual clock */
#define C08_IDX_DA   0x01500001u
#define C08_IDX_NODA 0x01500002u
static void c08_host(void) { tr("host mono=%llu real=%llu", (unsigned long long)(g_mono_ns / 1000000ULL), (unsigned long long)(g_real_ns / 1000000ULL)); }

static Rsp c08_nv_define(Buf *b, uint32_t idx, uint32_t attrs, const char *auth, uint16_t size) {
    cmd_begin(b, ST_SESSIONS, CC_NV_DefineSpace); b_u32(b, RH_OWNER); auth_pw(b, "", 0);
    b_2b(b, auth, strlen(auth));
    b_u16(b, 14); b_u32(b, idx); b_u16(b, ALG_SHA256); b_u32(b, attrs); b_u16(b, 0); b_u16(b, size);
    return run(b);
}
static Rsp c08_nv_write(Buf *b, uint32_t idx, const char *pw) {
    cmd_begin(b, ST_SESSIONS, CC_NV_Write); b_u32(b, idx); b_u32(b, idx); auth_pw(b, pw, strlen(pw));
    b_2b(b, "\x01\x02\x03\x04", 4); b_u16(b, 0);
    return run(b);
}
static Rsp c08_nv_read(Buf *b, uint32_t idx, const char *pw) {
    cmd_begin(b, ST_SESSIONS, CC_NV_Read); b_u32(b, idx); b_u32(b, idx); auth_pw(b, pw, strlen(pw));
    b_u16(b, 2); b_u16(b, 0);
    return run(b);
}
static void c08_neutral_line(Rsp r);
/* an HMAC key as a primary of the owner hierarchy, subject to DA or not; used once with a right or wrong password */
static void c08_auth_key(Buf *b, int noda, int ok) {
    Buf t = {0}; b_u16(&t, ALG_KEYEDHASH); b_u16(&t, ALG_SHA256); b_u32(&t, noda ? 0x00040472u : 0x00040072u); b_u16(&t, 0); b_u16(&t, ALG_HMAC); b_u16(&t, ALG_SHA256); b_u16(&t, 0);
    cmd_begin(b, ST_SESSIONS, CC_CreatePrimary); b_u32(b, RH_OWNER); auth_pw(b, "", 0); b_u16(b, 4 + 2); b_2b(b, noda ? "kn" : "kd", 2); b_u16(b, 0); b_2b(b, t.p, t.n); b_u16(b, 0); b_u32(b, 0); b_free(&t);
    Rsp r = run(b); tr("d op=auth ent=exempt ok=1 rc=%u stores=%ld", r.rc, g_store_in_cmd);
    if (r.rc != 0 || r.len < 14) return;
    uint32_t h = g32(r.p + 10);
    const char *pw = ok ? (noda ? "kn" : "kd") : "kx";
    cmd_begin(b, ST_SESSIONS, CC_HMAC); b_u32(b, h); auth_pw(b, pw, 2); b_2b(b, "data", 4); b_u16(b, ALG_SHA256); r = run(b);
    tr("d op=auth ent=%s ok=%d via=key rc=%u stores=%ld", noda ? "exempt" : "da", ok, r.rc, g_store_in_cmd);
    cmd_begin(b, ST_NO_SESSIONS, CC_FlushContext); b_u32(b, h); r = run(b); c08_neutral_line(r);
}
static void c08_auth(Buf *b, const char *ent, int ok) {
    Rsp r;
    if (!strcmp(ent, "da")) { if (chance(30)) { c08_auth_key(b, 0, ok); return; } r = c08_nv_read(b, C08_IDX_DA, ok ? "da" : (chance(50) ? "dx" : "")); }
    else { int k = rnd(4);
        if (k == 0) r = c08_nv_read(b, C08_IDX_NODA, ok ? "nd" : "nx");
        else if (k == 1) { c08_auth_key(b, 1, ok); return; }
        else if (k == 2) { /* a PCR: its authValue is empty and it never counts */
            uint8_t d[32] = {0}; cmd_begin(b, ST_SESSIONS, CC_PCR_Extend); b_u32(b, 16); auth_pw(b, ok ? "" : "zz", ok ? 0 : 2); b_u32(b, 1); b_u16(b, ALG_SHA256); b_bytes(b, d, 32); r = run(b); }
        else { cmd_begin(b, ST_SESSIONS, CC_ClockRateAdjust); b_u32(b, RH_OWNER); auth_pw(b, ok ? "" : "zz", ok ? 0 : 2); b_u8(b, 0); r = run(b); } }
    tr("d op=auth ent=%s ok=%d rc=%u stores=%ld", ent, ok, r.rc, g_store_in_cmd);
}
#define C08_IDX_POL  0x01500003u
static void c08_neutral_line(Rsp r) { tr("d op=neutral rc=%u stores=%ld", r.rc, g_store_in_cmd); }
/* an HMAC session BOUND to a DA-protected key, used with a wrong HMAC on an entity that is itself exempt (the owner hierarchy): a
   session bound to a protected entity is protected like the entity — the lockout check applies and the failure counts */
static void c08_auth_bound(Buf *b) {
    Buf t = {0}; b_u16(&t, ALG_KEYEDHASH); b_u16(&t, ALG_SHA256); b_u32(&t, 0x00040072u); b_u16(&t, 0); b_u16(&t, ALG_HMAC); b_u16(&t, ALG_SHA256); b_u16(&t, 0);
    cmd_begin(b, ST_SESSIONS, CC_CreatePrimary); b_u32(b, RH_OWNER); auth_pw(b, "", 0); b_u16(b, 4 + 2); b_2b(b, "kd", 2); b_u16(b, 0); b_2b(b, t.p, t.n); b_u16(b, 0); b_u32(b, 0); b_free(&t);
    Rsp r = run(b); tr("d op=auth ent=exempt ok=1 rc=%u stores=%ld", r.rc, g_store_in_cmd);
    if (r.rc != 0 || r.len < 14) return;
    uint32_t kh = g32(r.p + 10); uint8_t nonce[16] = {0};
    cmd_begin(b, ST_NO_SESSIONS, CC_StartAuthSession); b_u32(b, RH_NULL); b_u32(b, kh); b_2b(b, nonce, 16); b_u16(b, 0); b_u8(b, 0); b_u16(b, ALG_NULL); b_u16(b, ALG_SHA256);
    r = run(b); c08_neutral_line(r);
    if (r.rc == 0 && r.len >= 14) { uint32_t sh = g32(r.p + 10); uint8_t junk[32]; for (int q = 0; q < 32; q++) junk[q] = rnd(256);
        cmd_begin(b, ST_SESSIONS, CC_ClockRateAdjust); b_u32(b, RH_OWNER); b_u32(b, 4 + 2 + 16 + 1 + 2 + 32); b_u32(b, sh); b_2b(b, nonce, 16); b_u8(b, 1); b_2b(b, junk, 32); b_u8(b, 0);
        r = run(b); tr("d op=auth ent=da ok=0 via=bound rc=%u stores=%ld", r.rc, g_store_in_cmd);
        cmd_begin(b, ST_NO_SESSIONS, CC_FlushContext); b_u32(b, sh); Rsp f = run(b); if (f.rc == 0) c08_neutral_line(f); }
    cmd_begin(b, ST_NO_SESSIONS, CC_FlushContext); b_u32(b, kh); r = run(b); c08_neutral_line(r);
}
/* authorization of the DA-protected policy index through a policy session on which PolicyPassword was run */
static void c08_auth_policy(Buf *b, int ok) {
    uint8_t nonce[16] = {0};
    cmd_begin(b, ST_NO_SESSIONS, CC_StartAuthSession); b_u32(b, RH_NULL); b_u32(b, RH_NULL); b_2b(b, nonce, 16); b_u16(b, 0);
    b_u8(b, 1); b_u16(b, ALG_NULL); b_u16(b, ALG_SHA256);
    Rsp r = run(b); c08_neutral_line(r);
    if (r.rc != 0) return;
    uint32_t sh = g32(r.p + 10);
    cmd_begin(b, ST_NO_SESSIONS, CC_PolicyPassword); b_u32(b, sh); r = run(b); c08_neutral_line(r);
    const char *pw = ok ? "pp" : "px";
    cmd_begin(b, ST_SESSIONS, CC_NV_Read); b_u32(b, C08_IDX_POL); b_u32(b, C08_IDX_POL);
    b_u32(b, 9 + 2); b_u32(b, sh); b_u16(b, 0); b_u8(b, 1); b_2b(b, pw, 2);
    b_u16(b, 2); b_u16(b, 0);
    r = run(b);
    tr("d op=auth ent=da ok=%d via=policypw rc=%u stores=%ld", ok, r.rc, g_store_in_cmd);
    cmd_begin(b, ST_NO_SESSIONS, CC_FlushContext); b_u32(b, sh); r = run(b); c08_neutral_line(r);
}

static void c08_lockreset(Buf *b, int ok) {
    cmd_begin(b, ST_SESSIONS, CC_DictionaryAttackLockReset); b_u32(b, RH_LOCKOUT); auth_pw(b, ok ? "lk" : "lx", 2);
    Rsp r = run(b);
    tr("d op=lockreset ok=%d rc=%u stores=%ld", ok, r.rc, g_store_in_cmd);
}
static void c08_params(Buf *b, int ok, uint32_t mt, uint32_t rt, uint32_t lr) {
    cmd_begin(b, ST_SESSIONS, CC_DictionaryAttackParameters); b_u32(b, RH_LOCKOUT); auth_pw(b, ok ? "lk" : "lx", 2);
    b_u32(b, mt); b_u32(b, rt); b_u32(b, lr);
    Rsp r = run(b);
    tr("d op=params ok=%d mt=%u rt=%u lr=%u rc=%u stores=%ld", ok, mt, rt, lr, r.rc, g_store_in_cmd);
}
static uint32_t c08_prop(Buf *b, uint32_t pt, long *stores) {
    cmd_begin(b, ST_NO_SESSIONS, CC_GetCapability); b_u32(b, 6); b_u32(b, pt); b_u32(b, 1);
    Rsp r = run(b); *stores += g_store_in_cmd;
    if (r.rc != 0 || r.len < 27 || g32(r.p + 19) != pt) return 0xFFFFFFFF;
    return g32(r.p + 23);
}
static void c08_caps(Buf *b) {
    long st = 0;
    uint32_t cnt = c08_prop(b, 0x200 + 14, &st), mx = c08_prop(b, 0x200 + 15, &st), iv = c08_prop(b, 0x200 + 16, &st), rec = c08_prop(b, 0x200 + 17, &st), perm = c08_prop(b, 0x200, &st);
    tr("d op=caps counter=%u max=%u interval=%u recovery=%u inlockout=%u stores=%ld", cnt, mx, iv, rec, (perm >> 9) & 1, st);
}
static uint32_t c08_pick(const uint32_t *v, int n) { return v[rnd(n)]; }

static void scen_c08(int histories, int maxops) {
    Buf b = {0};
    static const uint32_t MT[] = {0, 1, 2, 3, 3, 5, 0xFFFFFFFFu}, RT[] = {0, 1, 2, 3, 10, 1000, 0xFFFFFFFFu}, LR[] = {0, 1, 2, 5, 1000};
    for (int h = 0; h < histories; h++) {
        tr("hist %d", h);
        g_mono_ns = (1 + rnd(100000)) * 1000000ULL; g_real_ns = 1700000000000000000ULL; c08_host();
        tpm2_fresh(h % 3 == 0 ? NULL : (h % 3 == 1 ? PROFILE_DEFAULT_V1 : PROFILE_CUSTOM)); tr("fresh");
        { Rsp r = tpm2_startup(&b, 0); tr("d op=startup su=0 rc=%u stores=%ld", r.rc, g_store_in_cmd); }
        /* setup: lockoutAuth := "lk" (authorised by the empty lockoutAuth), two NV indices */
        { cmd_begin(&b, ST_SESSIONS, 0x129 /* HierarchyChangeAuth */); b_u32(&b, RH_LOCKOUT); auth_pw(&b, "", 0); b_2b(&b, "lk", 2);
          Rsp r = run(&b); tr("d op=auth ent=lockout ok=1 commits=1 rc=%u stores=%ld", r.rc, g_store_in_cmd); }
        { Rsp r = c08_nv_define(&b, C08_IDX_DA, (1u << 2) | (1u << 18), "da", 8); tr("d op=auth ent=exempt ok=1 commits=1 rc=%u stores=%ld", r.rc, g_store_in_cmd);
          r = c08_nv_define(&b, C08_IDX_NODA, (1u << 2) | (1u << 18) | (1u << 25), "nd", 8); tr("d op=auth ent=exempt ok=1 commits=1 rc=%u stores=%ld", r.rc, g_store_in_cmd);
          r = c08_nv_write(&b, C08_IDX_DA, "da"); tr("d op=auth ent=da ok=1 commits=1 rc=%u stores=%ld", r.rc, g_store_in_cmd);
          if (r.rc == RC_RETRY) { r = c08_nv_write(&b, C08_IDX_DA, "da"); tr("d op=auth ent=da ok=1 commits=1 rc=%u stores=%ld", r.rc, g_store_in_cmd); }
          r = c08_nv_write(&b, C08_IDX_NODA, "nd"); tr("d op=auth ent=exempt ok=1 commits=1 rc=%u stores=%ld", r.rc, g_store_in_cmd);
          /* policy index: authPolicy = PolicyPassword digest = SHA256(0^32 || TPM_CC_PolicyAuthValue) */
          { uint8_t in[36] = {0}, dg[32]; in[34] = 0x01; in[35] = 0x6B; SHA256(in, 36, dg);
            cmd_begin(&b, ST_SESSIONS, CC_NV_DefineSpace); b_u32(&b, RH_OWNER); auth_pw(&b, "", 0); b_2b(&b, "pp", 2);
            b_u16(&b, 14 + 32); b_u32(&b, C08_IDX_POL); b_u16(&b, ALG_SHA256); b_u32(&b, (1u << 2) | (1u << 19) | (1u << 3)); b_2b(&b, dg, 32); b_u16(&b, 8);
            r = run(&b); tr("d op=auth ent=exempt ok=1 commits=1 rc=%u stores=%ld", r.rc, g_store_in_cmd);
            r = c08_nv_write(&b, C08_IDX_POL, "pp"); tr("d op=auth ent=da ok=1 commits=1 rc=%u stores=%ld", r.rc, g_store_in_cmd); } }
        if (chance(70)) c08_params(&b, 1, c08_pick(MT, 7), c08_pick(RT, 7), c08_pick(LR, 5));
        if (h % 3 == 0) {   /* drill: a failed lockoutAuth must keep lockoutAuth disabled across an ORDERLY restart (timers are rebased there) */
            c08_params(&b, 1, 5, 1000, 1000 + rnd(5000));
            clock_advance_ms(3000 + rnd(20000)); c08_host();
            c08_lockreset(&b, 0); c08_caps(&b);
            int su = rnd(2); Rsp r = tpm2_shutdown(&b, su); tr("d op=shutdown su=%d rc=%u stores=%ld", su, r.rc, g_store_in_cmd);
            if (chance(50)) { g_mono_ns = (1 + rnd(2000)) * 1000000ULL; c08_host(); }
            TPM_RESULT ret = tpm2_powercycle(); tr("restart ret=%u orderly=1", ret);
            r = tpm2_startup(&b, su); tr("d op=startup su=%d rc=%u stores=%ld", su, r.rc, g_store_in_cmd);
            if (r.rc != 0) { r = tpm2_startup(&b, 0); tr("d op=startup su=0 rc=%u stores=%ld", r.rc, g_store_in_cmd); }
            clock_advance_ms(rnd(2000)); c08_host();
            c08_lockreset(&b, 1); c08_caps(&b);
        }
        int n = 10 + rnd(maxops);
        for (int i = 0; i < n; i++) {
            if (chance(55)) {
                uint64_t ms;
                switch (rnd(9)) { case 0: ms = 0; break; case 1: ms = rnd(999); break; case 2: ms = 999 + rnd(3); break; case 3: ms = 1000ULL * (1 + rnd(12)) - 1 + rnd(3); break;
                    case 4: ms = 1000ULL * 1000 - 1 + rnd(3); break; case 5: ms = 1000ULL * 1000 * (1 + rnd(5)); break; case 6: ms = 4095 + rnd(3); break; case 7: ms = rnd(20000); break;
                    default: ms = 86400000ULL * (1 + rnd(50000)); break; }
                clock_advance_ms(ms); c08_host();
            }
            switch (rnd(16)) {
            case 0: case 1: case 2: case 3: c08_auth(&b, "da", chance(35)); break;
            case 4: if (chance(50)) c08_auth(&b, "da", 1); else c08_auth_policy(&b, chance(40)); break;
            case 5: if (chance(30)) c08_auth_bound(&b); else c08_auth(&b, "exempt", chance(40)); break;
            case 6: c08_lockreset(&b, chance(60)); break;
            case 7: c08_params(&b, chance(70), c08_pick(MT, 7), c08_pick(RT, 7), c08_pick(LR, 5)); break;
            case 8: case 9: c08_caps(&b); break;
            case 10: { /* orderly restart */
                int su = rnd(2); Rsp r = tpm2_shutdown(&b, su); tr("d op=shutdown su=%d rc=%u stores=%ld", su, r.rc, g_store_in_cmd);
                if (chance(60)) { clock_advance_ms(rnd(5000)); c08_host(); }
                if (chance(30)) { g_mono_ns = (1 + rnd(5000)) * 1000000ULL; c08_host(); }
                TPM_RESULT ret = tpm2_powercycle(); tr("restart ret=%u orderly=1", ret);
                int su2 = chance(75) ? su : 0; r = tpm2_startup(&b, su2); tr("d op=startup su=%d rc=%u stores=%ld", su2, r.rc, g_store_in_cmd);
                if (r.rc != 0) { r = tpm2_startup(&b, 0); tr("d op=startup su=0 rc=%u stores=%ld", r.rc, g_store_in_cmd); }
                break; }
            case 11: case 12: { /* power cut */
                if (chance(50)) { clock_advance_ms(rnd(3000)); c08_host(); }
                if (chance(30)) { g_mono_ns = (1 + rnd(5000)) * 1000000ULL; c08_host(); }
                TPM_RESULT ret = tpm2_powercycle(); tr("restart ret=%u orderly=0", ret);
                Rsp r = tpm2_startup(&b, 0); tr("d op=startup su=0 rc=%u stores=%ld", r.rc, g_store_in_cmd);
                break; }
            case 13: { /* suspend / resume */
                tr("suspend");
                unsigned char *pb = NULL, *vb = NULL; uint32_t pl = 0, vl = 0;
                TPM_RESULT r1 = TPMLIB_GetState(TPMLIB_STATE_PERMANENT, &pb, &pl), r2 = TPMLIB_GetState(TPMLIB_STATE_VOLATILE, &vb, &vl);
                TPMLIB_Terminate();
                switch (rnd(3)) { case 0: break; case 1: clock_advance_ms(rnd(100000)); break; default: g_mono_ns = (1 + rnd(5000)) * 1000000ULL; g_real_ns += rnd(100000) * 1000000ULL; break; }
                c08_host();
                TPM_RESULT r3 = TPMLIB_SetState(TPMLIB_STATE_PERMANENT, pb, pl), r4 = TPMLIB_SetState(TPMLIB_STATE_VOLATILE, vb, vl), r5 = TPMLIB_MainInit();
                free(pb); free(vb);
                tr("resume ret=%u", r1 | r2 | r3 | r4 | r5);
                break; }
            default: if (chance(60)) c08_auth(&b, "da", 0); else c08_auth_policy(&b, chance(30)); break;
            }
        }
        c08_caps(&b);
    }
    b_free(&b);
}
