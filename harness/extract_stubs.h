/* definitions of the redirect targets for programs that link the archive but are not the harness */
#include <setjmp.h>
#include <time.h>
#include <stdlib.h>
extern int _plat__IsCanceled(void);
int verif_IsCanceled(void) { return _plat__IsCanceled(); }
void verif_longjmp(jmp_buf env, int val) { abort(); }
int verif_clock_gettime(clockid_t c, struct timespec *ts) { ts->tv_sec = 1; ts->tv_nsec = 0; return 0; }
int verif_RAND_bytes(unsigned char *b, int n) { for (int i = 0; i < n; i++) b[i] = (unsigned char)(i * 7 + 1); return 1; }
int verif_rand(void) { return 4; }
