/* C17: failure mode contained, reported, sticky; failures outside Process reported via return value */
#include <sys/wait.h>
extern uint32_t s_failFunction, s_failLine, s_failCode;
extern int g_inFailureMode;

static void c17_failinfo(void) { tr("failinfo fn=%u line=%u code=%u infail=%d", s_failFunction, s_failLine, s_failCode, g_inFailureMode); }

static void c17_fcmd(const uint8_t *req, uint32_t n) {
    long before = g_store_calls;
    Rsp r = run_raw(req, n);
    tr_begin("fcmd ret=%u stores=%ld bufsize=%u", r.ret, g_store_calls - before, r.bufsize);
    trhex("req", req, n); trhex("rsp", r.p, r.len); tr_end();
}

/* a stream of requests aimed at every branch of TpmFailureMode */
static void c17_stream(Buf *b, int n) {
    for (int i = 0; i < n; i++) {
        switch (rnd(14)) {
        case 0: cmd_begin(b, ST_NO_SESSIONS, CC_GetTestResult); b_put32(b, 2, 10); break;
        case 1: cmd_begin(b, chance(50) ? ST_SESSIONS : (uint16_t)rnd(65536), CC_GetTestResult); b_put32(b, 2, 10); break;
        case 2: cmd_begin(b, ST_NO_SESSIONS, CC_GetTestResult); { int extra = rnd(4); for (int k = 0; k < extra; k++) b_u8(b, rnd(256)); b_put32(b, 2, chance(60) ? (uint32_t)b->n : rnd(30)); } break;
        case 3: case 4: case 5: { /* GetCapability TPM_PROPERTIES with interesting pt/count */
            static const uint32_t pts[] = {0, 0x100, 0x104, 0x105, 0x106, 0x107, 0x108, 0x109, 0x10A, 0x10B, 0x10C, 0x10D, 0x10E, 0x200, 0xFFFFFFFF};
            cmd_begin(b, ST_NO_SESSIONS, CC_GetCapability); b_u32(b, chance(85) ? 6 : rnd(10));
            b_u32(b, chance(80) ? pts[rnd(sizeof pts / sizeof pts[0])] : (uint32_t)rnd64());
            b_u32(b, chance(30) ? 0 : (chance(50) ? 1 : rnd(100)));
            b_put32(b, 2, chance(85) ? 22 : rnd(40));
            if (chance(10)) b->n -= rnd(5); else if (chance(10)) b_u32(b, 0);
            break; }
        case 6: cmd_begin(b, ST_NO_SESSIONS, CC_GetRandom); b_u16(b, 8); b_put32(b, 2, (uint32_t)b->n); break;
        case 7: cmd_begin(b, ST_NO_SESSIONS, CC_Startup); b_u16(b, 0); b_put32(b, 2, (uint32_t)b->n); break;
        case 8: cmd_begin(b, ST_SESSIONS, CC_ClearControl); b_u32(b, RH_PLATFORM); auth_pw(b, "", 0); b_u8(b, 0); b_put32(b, 2, (uint32_t)b->n); break;
        case 9: cmd_begin(b, ST_NO_SESSIONS, CC_Shutdown); b_u16(b, rnd(2)); b_put32(b, 2, (uint32_t)b->n); break;
        case 10: { b_reset(b); int len = rnd(14); for (int k = 0; k < len; k++) b_u8(b, rnd(256)); break; }   /* short garbage incl. empty */
        case 11: { b_reset(b); b_u16(b, ST_NO_SESSIONS); b_u32(b, rnd(20)); b_u32(b, chance(50) ? CC_GetTestResult : CC_GetCapability); int len = rnd(16); for (int k = 0; k < len; k++) b_u8(b, rnd(256)); break; }
        case 12: cmd_begin(b, ST_NO_SESSIONS, CC_ReadClock); b_put32(b, 2, 10); break;
        default: cmd_begin(b, ST_NO_SESSIONS, 0x11F + rnd(0x80)); { int len = rnd(40); for (int k = 0; k < len; k++) b_u8(b, rnd(256)); b_put32(b, 2, (uint32_t)b->n); } break;
        }
        c17_fcmd(b->p, (uint32_t)b->n);
    }
}

/* run fn in a forked child; report how the child ended */
static void c17_oracle(const char *name, void (*fn)(void)) {
    fflush(g_tr);
    pid_t pid = fork();
    if (pid == 0) { fn(); fflush(g_tr); _exit(0); }
    int st = 0; waitpid(pid, &st, 0);
    int code = WIFEXITED(st) ? WEXITSTATUS(st) : 1000 + WTERMSIG(st);
    tr("oracle name=%s exit=%d", name, code);
}
static void c17_o_iohash_before_init(void) {
    TPMLIB_Terminate(); storage_reset();
    TPMLIB_ChooseTPMVersion(TPMLIB_TPM_VERSION_2); TPMLIB_RegisterCallbacks(&g_cbs);
    TPM_RESULT r = TPM_IO_Hash_Start(); tr("api name=iohash_start_before_init ret=%u", r);
}
static void c17_o_iohash_after_terminate(void) {
    tpm2_fresh(NULL); Buf b = {0}; tpm2_startup(&b, 0); TPMLIB_Terminate();
    TPM_RESULT r = TPM_IO_Hash_Start(); tr("api name=iohash_start_after_terminate ret=%u", r);
    r = TPM_IO_Hash_Data((const unsigned char *)"abc", 3); tr("api name=iohash_data_after_terminate ret=%u", r);
    r = TPM_IO_Hash_End(); tr("api name=iohash_end_after_terminate ret=%u", r);
}
static void c17_o_getstate_garbage_setstate(void) {
    tpm2_fresh(NULL); TPMLIB_Terminate();
    uint8_t g[64]; for (int i = 0; i < 64; i++) g[i] = (uint8_t)(i * 13);
    TPM_RESULT r = TPMLIB_SetState(TPMLIB_STATE_VOLATILE, g, sizeof g); tr("api name=setstate_vol_garbage ret=%u", r);
    r = TPMLIB_SetState(TPMLIB_STATE_PERMANENT, g, sizeof g); tr("api name=setstate_perm_garbage ret=%u", r);
}

static void scen_c17(int histories, int stream) {
    Buf b = {0};
    c17_oracle("iohash-before-init", c17_o_iohash_before_init);
    c17_oracle("iohash-after-terminate", c17_o_iohash_after_terminate);
    c17_oracle("setstate-garbage", c17_o_getstate_garbage_setstate);
    for (int h = 0; h < histories; h++) {
        tr("hist %d", h);
        tpm2_fresh(h % 3 == 0 ? NULL : (h % 3 == 1 ? PROFILE_DEFAULT_V1 : PROFILE_CUSTOM));
        tpm2_startup(&b, 0);
        int pre = rnd(6);
        for (int i = 0; i < pre; i++) { cmd_begin(&b, ST_SESSIONS, CC_ClearControl); b_u32(&b, RH_PLATFORM); auth_pw(&b, "", 0); b_u8(&b, rnd(2)); run(&b); }
        /* a healthy volatile + permanent blob pair taken before the failure */
        unsigned char *hv = NULL, *hp = NULL; uint32_t hvl = 0, hpl = 0;
        TPMLIB_GetState(TPMLIB_STATE_VOLATILE, &hv, &hvl); TPMLIB_GetState(TPMLIB_STATE_PERMANENT, &hp, &hpl);
        int route = rnd(5);
        if (route >= 3) {
            /* storage refuses the commit of whatever command commits next in a random history (NV, objects, hierarchies, DA, audit, ...) */
            World w; memset(&w, 0, sizeof w); g_gen_host_rng_ok = 1;
            for (int i = 0, n = rnd(8); i < n; i++) gen_op(&w, &b);
            g_store_fail_at = g_store_calls; g_store_fail_sticky = (route == 4);
            int k = 0; for (; k < 60 && !g_inFailureMode; k++) gen_op(&w, &b);
            if (!g_inFailureMode) { cmd_begin(&b, ST_SESSIONS, CC_ClearControl); b_u32(&b, RH_PLATFORM); auth_pw(&b, w.platformAuth, strlen(w.platformAuth)); b_u8(&b, 0); run(&b); w.last_cc = CC_ClearControl; w.last_rc = g32(g_respbuf + 6); }
            tr("enter route=storefault rc=%u len=%u infail=%d cc=%x after=%d", w.last_rc, g32(g_respbuf + 2), g_inFailureMode, w.last_cc, k);
            w_reset(&w);
        } else
        if (route == 0 || route == 2) {
            /* storage refuses the next commit */
            g_store_fail_at = g_store_calls; g_store_fail_sticky = (route == 2);
            cmd_begin(&b, ST_SESSIONS, CC_ClearControl); b_u32(&b, RH_PLATFORM); auth_pw(&b, "", 0); b_u8(&b, 0);
            Rsp r = run(&b);
            tr("enter route=storefault rc=%u len=%u infail=%d", r.rc, r.len, g_inFailureMode);
        } else {
            /* storage refuses the commit at the end of Shutdown */
            g_store_fail_at = g_store_calls;
            Rsp r = tpm2_shutdown(&b, rnd(2));
            tr("enter route=storefault rc=%u len=%u infail=%d", r.rc, r.len, g_inFailureMode);
        }
        c17_failinfo();
        c17_stream(&b, stream);
        /* API calls while in failure mode */
        { TPM_RESULT r = TPM_IO_Hash_Start(); tr("api name=iohash_start_in_failure ret=%u", r);
          r = TPM_IO_Hash_Data((const unsigned char *)"x", 1); tr("api name=iohash_data_in_failure ret=%u", r);
          r = TPM_IO_Hash_End(); tr("api name=iohash_end_in_failure ret=%u", r); }
        /* SetState is refused while the TPM runs and must not end failure mode */
        { TPM_RESULT r = TPMLIB_SetState(TPMLIB_STATE_VOLATILE, hv, hvl); tr("api name=setstate_vol_in_failure ret=%u", r);
          r = TPMLIB_SetState(TPMLIB_STATE_PERMANENT, hp, hpl); tr("api name=setstate_perm_in_failure ret=%u", r);
          free(hv); free(hp); }
        c17_failinfo();
        c17_stream(&b, 25);
        /* failure mode survives suspend/resume */
        { long sc = g_store_calls; faults_clear();
          TPM_RESULT r = tpm2_suspend_resume(NULL, NULL);
          tr("fresume ret=%u infail=%d stores=%ld", r, g_inFailureMode, g_store_calls - sc); }
        c17_failinfo();
        c17_stream(&b, stream / 2);
        /* ends only by re-initialising from good state */
        faults_clear();
        TPM_RESULT r = tpm2_powercycle();
        Rsp rs = tpm2_startup(&b, 0);
        tr("recover ret=%u startup_rc=%u infail=%d", r, rs.rc, g_inFailureMode);
        /* failure arising inside MainInit must come back through its return value */
        if (h % 2 == 0) {
            int mode = 1 + rnd(3);   /* 1 load TPM_FAIL, 2 garbage, 3 truncated */
            TPMLIB_Terminate();
            g_load_fail_at = g_load_calls + (mode == 1 ? rnd(2) : 1); g_load_fail_mode = mode;   /* the 2nd load is the one MainInit acts on */
            long sc = g_store_calls;
            TPM_RESULT ri = TPMLIB_MainInit();
            tr("initfail mode=%d ret=%u infail=%d stores=%ld fired=%ld", mode, ri, g_inFailureMode, g_store_calls - sc, g_fault_fired);
            if (g_inFailureMode) { c17_failinfo(); c17_stream(&b, 10); }
            faults_clear();
            TPM_RESULT rr = tpm2_powercycle(); Rsp rs2 = tpm2_startup(&b, 0);
            tr("recover ret=%u startup_rc=%u infail=%d", rr, rs2.rc, g_inFailureMode);
        }
    }
    b_free(&b);
}
