/* C13: cryptographic results equal an independent reference (the Lean Crypto library) */
static const uint16_t C13_ALGS[4] = {ALG_SHA1, ALG_SHA256, ALG_SHA384, ALG_SHA512};

static int c13_len(void) {   /* message lengths around block boundaries */
    static const int L[] = {0, 1, 3, 55, 56, 57, 63, 64, 65, 111, 112, 113, 119, 120, 127, 128, 129, 191, 192, 255, 256, 257, 300};
    return chance(80) ? L[rnd(sizeof L / sizeof L[0])] : (int)rnd(400);
}
static void c13_fill(uint8_t *p, int n) { for (int i = 0; i < n; i++) p[i] = rnd(256); }

static uint32_t c13_make_key(Buf *b, int kind /*1 hmac 2 aes*/, const uint8_t *key, int klen, int bits /* aes key bits, or hash alg of the HMAC key */) {
    Buf t = {0};
    if (kind == 1) { b_u16(&t, ALG_KEYEDHASH); b_u16(&t, ALG_SHA256); b_u32(&t, 0x00040452u); b_u16(&t, 0); b_u16(&t, ALG_HMAC); b_u16(&t, bits); b_u16(&t, 0); }
    else { b_u16(&t, ALG_SYMCIPHER); b_u16(&t, ALG_SHA256); b_u32(&t, 0x00060452u); b_u16(&t, 0); b_u16(&t, ALG_AES); b_u16(&t, bits); b_u16(&t, ALG_NULL); b_u16(&t, 0); }
    cmd_begin(b, ST_SESSIONS, CC_CreatePrimary); b_u32(b, RH_NULL); auth_pw(b, "", 0);
    b_u16(b, 4 + klen); b_u16(b, 0); b_2b(b, key, klen);
    b_2b(b, t.p, t.n); b_u16(b, 0); b_u32(b, 0);
    b_free(&t);
    Rsp r = run(b);
    if (r.rc) tr("mkkey kind=%d klen=%d bits=%d rc=%u", kind, klen, bits, r.rc);
    return (r.rc == 0 && r.len >= 14) ? g32(r.p + 10) : 0;
}
static void c13_flush(Buf *b, uint32_t h) { cmd_begin(b, ST_NO_SESSIONS, CC_FlushContext); b_u32(b, h); run(b); }

static void c13_hash(Buf *b) {
    uint8_t m[1024]; int n = c13_len(); if (chance(10)) n = 1000 + rnd(24); c13_fill(m, n);
    uint16_t alg = C13_ALGS[rnd(4)];
    cmd_begin(b, ST_NO_SESSIONS, CC_Hash); b_2b(b, m, n); b_u16(b, alg); b_u32(b, RH_NULL);
    Rsp r = run(b);
    tr_begin("h alg=%u rc=%u", alg, r.rc); trhex("msg", m, n);
    if (r.rc == 0) { uint16_t dl = g16(r.p + 10); trhex("digest", r.p + 12, dl); }
    tr_end();
}
static void c13_hmac(Buf *b) {
    uint8_t key[160], m[512]; int kl = (int[]){1, 16, 32, 64, 65, 128}[rnd(6)]; c13_fill(key, kl); int n = c13_len(); c13_fill(m, n);
    uint16_t alg = C13_ALGS[rnd(4)];
    uint32_t h = c13_make_key(b, 1, key, kl, alg);
    if (!h) { tr("hm rc=999 note=nokey klen=%d", kl); return; }
    cmd_begin(b, ST_SESSIONS, CC_HMAC); b_u32(b, h); auth_pw(b, "", 0); b_2b(b, m, n); b_u16(b, alg);
    Rsp r = run(b);
    tr_begin("hm alg=%u rc=%u", alg, r.rc); trhex("key", key, kl); trhex("msg", m, n);
    if (r.rc == 0) { Rd rd = rsp_params(&r, 0); uint16_t dl; const uint8_t *d = r_2b(&rd, &dl); trhex("mac", d, dl); }
    tr_end();
    c13_flush(b, h);
}
/* hash / HMAC / event sequence with every kind of interruption between updates */
static void c13_sequence(Buf *b) {
    int kind = rnd(3);   /* 0 hash 1 hmac 2 event */
    uint16_t alg = C13_ALGS[rnd(4)];
    uint8_t key[64]; int kl = 20 + rnd(40); c13_fill(key, kl);
    uint32_t kh = 0, sh = 0;
    if (kind == 1) { kh = c13_make_key(b, 1, key, kl, alg); if (!kh) return;
        cmd_begin(b, ST_SESSIONS, CC_HMAC_Start); b_u32(b, kh); auth_pw(b, "", 0); b_u16(b, 0); b_u16(b, alg); }
    else { cmd_begin(b, ST_NO_SESSIONS, CC_HashSequenceStart); b_u16(b, 0); b_u16(b, kind == 2 ? ALG_NULL : alg); }
    Rsp r = run(b);
    if (r.rc != 0) { tr("seq kind=%d alg=%u rc=%u note=start", kind, alg, r.rc); if (kh) c13_flush(b, kh); return; }
    sh = g32(r.p + 10);
    int nch = 1 + rnd(4);
    tr_begin("seq kind=%d alg=%u", kind, alg); if (kind == 1) trhex("key", key, kl);
    fprintf(g_tr, " chunks=");
    char intr[16] = {0}; uint32_t rc = 0;
    uint8_t last[200]; int lastn = 0;
    for (int c = 0; c < nch; c++) {
        uint8_t m[400]; int n = c13_len(); if (n > 380) n = 380; c13_fill(m, n);
        if (c) fputc(',', g_tr);
        if (!n) fputc('-', g_tr); for (int i = 0; i < n; i++) fprintf(g_tr, "%02x", m[i]);
        if (c == nch - 1 && kind != 2 && n <= 200) { memcpy(last, m, n); lastn = n; break; }   /* last chunk goes into SequenceComplete */
        cmd_begin(b, ST_SESSIONS, CC_SequenceUpdate); b_u32(b, sh); auth_pw(b, "", 0); b_2b(b, m, n);
        Rsp u = run(b); if (u.rc) rc = u.rc;
        /* interruption after this update */
        int it = rnd(4); intr[c] = '0' + it;
        if (it == 1) { /* ContextSave / Flush / ContextLoad */
            cmd_begin(b, ST_NO_SESSIONS, CC_ContextSave); b_u32(b, sh); Rsp s = run(b);
            if (s.rc == 0) { uint8_t *ctx = malloc(s.len); uint32_t cn = s.len - 10; memcpy(ctx, s.p + 10, cn);
                c13_flush(b, sh);
                cmd_begin(b, ST_NO_SESSIONS, CC_ContextLoad); b_bytes(b, ctx, cn); Rsp l = run(b); free(ctx);
                if (l.rc == 0) sh = g32(l.p + 10); else rc = l.rc; }
            else rc = s.rc;
        } else if (it == 2) { TPM_RESULT rr = tpm2_suspend_resume(NULL, NULL); if (rr) rc = 0xEEEE; }
    }
    if (kind == 2) { cmd_begin(b, ST_SESSIONS, CC_EventSequenceComplete); b_u32(b, RH_NULL); b_u32(b, sh); b_u32(b, 18);
        b_u32(b, RS_PW); b_u16(b, 0); b_u8(b, 0); b_u16(b, 0); b_u32(b, RS_PW); b_u16(b, 0); b_u8(b, 0); b_u16(b, 0); b_u16(b, 0); }
    else { cmd_begin(b, ST_SESSIONS, CC_SequenceComplete); b_u32(b, sh); auth_pw(b, "", 0); b_2b(b, last, lastn); b_u32(b, RH_NULL); }
    r = run(b); if (r.rc) { rc = r.rc; c13_flush(b, sh); }
    fprintf(g_tr, " intr=%s rc=%u", intr[0] ? intr : "-", rc);
    if (r.rc == 0) {
        Rd rd = rsp_params(&r, 0);
        if (kind == 2) { uint32_t cnt = r_u32(&rd); fprintf(g_tr, " out=");
            for (uint32_t i = 0; i < cnt && !rd.err; i++) { uint16_t a = r_u16(&rd); int dl = a == ALG_SHA1 ? 20 : a == ALG_SHA256 ? 32 : a == ALG_SHA384 ? 48 : 64; const uint8_t *d = r_bytes(&rd, dl);
                fprintf(g_tr, "%s%u:", i ? ";" : "", a); for (int k = 0; k < dl; k++) fprintf(g_tr, "%02x", d[k]); } }
        else { uint16_t dl; const uint8_t *d = r_2b(&rd, &dl); trhex("out", d, dl); }
    }
    tr_end();
    if (kh) c13_flush(b, kh);
}
static void c13_sym(Buf *b) {
    static const uint16_t MODES[5] = {ALG_CFB, ALG_CBC, ALG_CTR, ALG_OFB, ALG_ECB};
    int bits = (int[]){128, 192, 256}[rnd(3)]; uint8_t key[32]; c13_fill(key, bits / 8);
    uint32_t h = c13_make_key(b, 2, key, bits / 8, bits);
    if (!h) { tr("sym rc=999 note=nokey bits=%d", bits); return; }
    uint16_t mode = MODES[rnd(5)];
    uint8_t iv[16]; c13_fill(iv, 16);
    if (mode == ALG_CTR && chance(40)) { int keep = chance(60) ? 1 : rnd(16); for (int q = keep; q < 16; q++) iv[q] = 0xff; if (chance(40)) iv[15] = 0xfe - rnd(3); if (keep == 0 && chance(50)) iv[0] = 0xff; }   /* counters about to carry */
    /* two chained calls: the second uses the IV returned by the first */
    uint8_t ivcur[16]; memcpy(ivcur, iv, 16);
    for (int call = 0; call < 2; call++) {
        int blocks = 1 + rnd(4); int n = 16 * blocks; if ((mode == ALG_CFB || mode == ALG_CTR || mode == ALG_OFB) && call == 1 && chance(50)) n -= 1 + rnd(15);
        uint8_t in[80]; c13_fill(in, n); int dec = rnd(2);
        cmd_begin(b, ST_SESSIONS, CC_EncryptDecrypt2); b_u32(b, h); auth_pw(b, "", 0); b_2b(b, in, n); b_u8(b, dec); b_u16(b, mode); b_2b(b, ivcur, mode == ALG_ECB ? 0 : 16);
        Rsp r = run(b);
        tr_begin("sym bits=%d mode=%u decrypt=%d call=%d rc=%u", bits, mode, dec, call, r.rc); trhex("key", key, bits / 8); trhex("iv", ivcur, mode == ALG_ECB ? 0 : 16); trhex("in", in, n);
        if (r.rc == 0) { Rd rd = rsp_params(&r, 0); uint16_t ol, il; const uint8_t *o = r_2b(&rd, &ol); trhex("out", o, ol); const uint8_t *iv2 = r_2b(&rd, &il); trhex("ivout", iv2, il); if (il == 16) memcpy(ivcur, iv2, 16); }
        tr_end();
        if (r.rc) break;
    }
    c13_flush(b, h);
}
#include "scen_c13x.h"
/* RSA-2048 general-purpose key (scheme NULL) and ECC P-256 signing key: public parts are parsed from the response */
static void c13_asym(Buf *b) {
    Buf t = {0};
    /* RSA */
    b_u16(&t, ALG_RSA); b_u16(&t, ALG_SHA256); b_u32(&t, 0x00060472u); b_u16(&t, 0);
    b_u16(&t, ALG_NULL); b_u16(&t, ALG_NULL); b_u16(&t, 2048); b_u32(&t, 0); b_u16(&t, 0);
    cmd_begin(b, ST_SESSIONS, CC_CreatePrimary); b_u32(b, RH_OWNER); auth_pw(b, "", 0); b_u16(b, 4); b_u16(b, 0); b_u16(b, 0); b_2b(b, t.p, t.n); b_u16(b, 0); b_u32(b, 0);
    Rsp r = run(b);
    if (r.rc == 0) {
        uint32_t h = g32(r.p + 10); Rd rd = rsp_params(&r, 1); uint16_t pl = r_u16(&rd); (void)pl;
        r_u16(&rd); r_u16(&rd); r_u32(&rd); uint16_t apl; r_2b(&rd, &apl); r_u16(&rd); r_u16(&rd); r_u16(&rd); r_u32(&rd);
        uint16_t nl; const uint8_t *n = r_2b(&rd, &nl); uint8_t mod[256]; if (nl == 256) memcpy(mod, n, 256);
        for (int k = 0; k < 6 && nl == 256; k++) {
            uint8_t m[256]; int ml = (int[]){1, 32, 255, 256, 256, 100}[k]; c13_fill(m, ml);
            if (k == 1) m[0] = 0; if (k == 3) { m[0] = 0; m[1] = 0; } if (k == 4) m[0] &= 0x7f; if (k == 5) { m[0] = 0; m[1] = 0; m[2] = 0; }
            cmd_begin(b, ST_NO_SESSIONS, 0x174 /* RSA_Encrypt */); b_u32(b, h); b_2b(b, m, ml); b_u16(b, ALG_NULL); b_u16(b, 0);
            Rsp e = run(b);
            tr_begin("rsaenc rc=%u", e.rc); trhex("n", mod, 256); trhex("m", m, ml);
            uint8_t c[256]; uint16_t cl = 0;
            if (e.rc == 0) { cl = g16(e.p + 10); if (cl == 256) memcpy(c, e.p + 12, 256); trhex("c", e.p + 12, cl); }
            tr_end();
            if (e.rc == 0 && cl == 256) {
                cmd_begin(b, ST_SESSIONS, 0x159 /* RSA_Decrypt */); b_u32(b, h); auth_pw(b, "", 0); b_2b(b, c, 256); b_u16(b, ALG_NULL); b_u16(b, 0);
                Rsp d = run(b);
                tr_begin("rsadec rc=%u", d.rc); trhex("m", m, ml);
                if (d.rc == 0) { Rd q = rsp_params(&d, 0); uint16_t ol; const uint8_t *o = r_2b(&q, &ol); trhex("out", o, ol); }
                tr_end();
            }
        }
        /* RSASSA signature over a digest */
        for (int k = 0; k < 2 && nl == 256; k++) {
            uint8_t dg[32]; c13_fill(dg, 32);
            cmd_begin(b, ST_SESSIONS, CC_Sign); b_u32(b, h); auth_pw(b, "", 0); b_2b(b, dg, 32); b_u16(b, ALG_RSASSA); b_u16(b, ALG_SHA256); b_u16(b, 0x8024); b_u32(b, RH_NULL); b_u16(b, 0);
            Rsp s = run(b);
            tr_begin("rsasig rc=%u", s.rc); trhex("n", mod, 256); trhex("digest", dg, 32);
            if (s.rc == 0) { Rd q = rsp_params(&s, 0); r_u16(&q); r_u16(&q); uint16_t sl; const uint8_t *sg = r_2b(&q, &sl); trhex("sig", sg, sl);
                /* VerifySignature accepts exactly the valid signature */
                for (int bad = 0; bad < 2 && sl == 256; bad++) {
                    uint8_t s2[256]; memcpy(s2, sg, 256); if (bad) s2[rnd(256)] ^= 1 << rnd(8);
                    Buf v = {0}; cmd_begin(&v, ST_NO_SESSIONS, CC_VerifySignature); b_u32(&v, h); b_2b(&v, dg, 32); b_u16(&v, ALG_RSASSA); b_u16(&v, ALG_SHA256); b_2b(&v, s2, 256);
                    Rsp vr = run(&v); fprintf(g_tr, " verify%d=%u", bad, vr.rc); b_free(&v); } }
            tr_end();
        }
        if (nl == 256) c13_rsa_pad(b, h, mod);
        c13_flush(b, h);
    } else tr("rsaenc rc=%u note=nokey", r.rc);
    /* ECC P-256 ECDSA */
    uint8_t uq[1] = {0};
    tmpl_ecc_sign(&t, 0, uq, 0);
    cmd_begin(b, ST_SESSIONS, CC_CreatePrimary); b_u32(b, RH_OWNER); auth_pw(b, "", 0); b_u16(b, 4); b_u16(b, 0); b_u16(b, 0); b_2b(b, t.p, t.n); b_u16(b, 0); b_u32(b, 0);
    r = run(b);
    if (r.rc == 0) {
        uint32_t h = g32(r.p + 10); Rd rd = rsp_params(&r, 1); r_u16(&rd);
        r_u16(&rd); r_u16(&rd); r_u32(&rd); uint16_t apl; r_2b(&rd, &apl); r_u16(&rd); r_u16(&rd); r_u16(&rd); r_u16(&rd); r_u16(&rd);
        uint16_t xl, yl; const uint8_t *x = r_2b(&rd, &xl); uint8_t qx[32]; if (xl == 32) memcpy(qx, x, 32); const uint8_t *y = r_2b(&rd, &yl); uint8_t qy[32]; if (yl == 32) memcpy(qy, y, 32);
        for (int k = 0; k < 4 && xl == 32 && yl == 32; k++) {
            uint8_t dg[32]; c13_fill(dg, 32);
            cmd_begin(b, ST_SESSIONS, CC_Sign); b_u32(b, h); auth_pw(b, "", 0); b_2b(b, dg, 32); b_u16(b, ALG_NULL); b_u16(b, 0x8024); b_u32(b, RH_NULL); b_u16(b, 0);
            Rsp s = run(b);
            tr_begin("ecdsa rc=%u", s.rc); trhex("qx", qx, 32); trhex("qy", qy, 32); trhex("digest", dg, 32);
            if (s.rc == 0) { Rd q = rsp_params(&s, 0); r_u16(&q); r_u16(&q); uint16_t rl, sl; const uint8_t *rr = r_2b(&q, &rl); uint8_t rb[32]; if (rl <= 32) { memset(rb, 0, 32); memcpy(rb + 32 - rl, rr, rl); }
                const uint8_t *ss = r_2b(&q, &sl); uint8_t sb2[32]; if (sl <= 32) { memset(sb2, 0, 32); memcpy(sb2 + 32 - sl, ss, sl); }
                trhex("r", rb, 32); trhex("s", sb2, 32);
                for (int bad = 0; bad < 2; bad++) {
                    uint8_t r2[32], s2[32]; memcpy(r2, rb, 32); memcpy(s2, sb2, 32); if (bad) { if (chance(50)) r2[rnd(32)] ^= 1 << rnd(8); else s2[rnd(32)] ^= 1 << rnd(8); }
                    Buf v = {0}; cmd_begin(&v, ST_NO_SESSIONS, CC_VerifySignature); b_u32(&v, h); b_2b(&v, dg, 32); b_u16(&v, ALG_ECDSA); b_u16(&v, ALG_SHA256); b_2b(&v, r2, 32); b_2b(&v, s2, 32);
                    Rsp vr = run(&v); fprintf(g_tr, " verify%d=%u", bad, vr.rc); b_free(&v); } }
            tr_end();
        }
        c13_flush(b, h);
    }
    b_free(&t);
}
static void scen_c13(int rounds, int nasym) {
    g_tpm2_statics = 1;   /* a resume or power cycle starts from the load-time image of the library's globals, as in a new process */
    Buf b = {0};
    for (int h = 0; h < 3; h++) {
        tr("hist %d", h);
        tpm2_fresh(h == 0 ? NULL : (h == 1 ? PROFILE_DEFAULT_V1 : PROFILE_CUSTOM)); tpm2_startup(&b, 0);
        for (int i = 0; i < rounds; i++) {
            switch (rnd(13)) { case 0: case 1: c13_hash(&b); break; case 2: c13_hmac(&b); break; case 3: case 4: case 5: c13_sequence(&b); break;
                case 8: case 9: c13_sym2(&b); break; case 10: c13_ecc(&b); break; case 11: c13_cmac(&b); break; default: c13_sym(&b); break; }
        }
        if (h < nasym) c13_asym(&b);
    }
    b_free(&b);
}
