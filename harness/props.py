"""Per-property configuration of bin/check."""
COMMON_MODELLED = ["the C code itself is not verified: its link to the Lean model is the sampled correspondence (tpmdrv vs tpmmodel) plus the regenerated Gen/*.lean"]
PROPS = {
    "C16": {
        "shards": {"quick": 4, "thorough": 16},
        "timeout": {"quick": 600, "thorough": 3000},
        "rule": "evaluation = one TPM command (ReadClock/ClockSet/ClockRateAdjust/Startup/Shutdown/ClearControl/GetCapability) or restart/suspend/resume event replayed through Model.Clock; distinct_nontrivial = distinct (op, rc, stored?, safe) model outcomes + restart/resume host-clock classes hit",
        "partial": ["safe_until_passed: holds only under the hypothesis that the stored Clock lags the live one by < 2^NV_CLOCK_UPDATE_INTERVAL ms (theorem safe_until_passed_partial); its failure for the code as it is is theorem safe_until_passed_fails and known finding F",
                    "monotonicity theorems carry explicit no-64-bit-overflow hypotheses (2^64 ms)"],
        "modelled": COMMON_MODELLED + ["Clock.c, Time.c, ClockCommands.c, counter part of TPM2_Startup/Shutdown, VolatileState v4 clock tail: modelled by hand in Model/Clock.lean; constants generated"],
        "assumptions": ["host CLOCK_MONOTONIC does not go backwards within one run (arbitrary across suspend/resume)", "virtual clock via -Dclock_gettime redirect on Clock.c"],
    },
}
