"""Per-property configuration of bin/check."""
COMMON_MODELLED = ["the C code itself is not verified: its link to the Lean model is the sampled correspondence (tpmdrv vs tpmmodel) plus the regenerated Gen/*.lean"]
PROPS = {
    "C16": {
        "shards": {"quick": 4, "thorough": 16},
        "timeout": {"quick": 600, "thorough": 3000},
        "rule": "evaluation = one TPM command (ReadClock/ClockSet/ClockRateAdjust/Startup/Shutdown/ClearControl/GetCapability) or restart/suspend/resume event replayed through Model.Clock; distinct_nontrivial = distinct (op, rc, stored?, safe) model outcomes + restart/resume host-clock classes hit",
        "partial": ["safe_until_passed: holds only under the hypothesis that the stored Clock lags the live one by < 2^NV_CLOCK_UPDATE_INTERVAL ms (theorem safe_until_passed_partial); its failure for the code as it is is theorem safe_until_passed_fails and known finding F",
                    "monotonicity theorems carry explicit no-64-bit-overflow hypotheses (2^64 ms)"],
        "modelled": COMMON_MODELLED + ["Clock.c, Time.c, ClockCommands.c, counter part of TPM2_Startup/Shutdown, VolatileState v4 clock tail: modelled by hand in Model/Clock.lean; constants generated"],
        "assumptions": ["host CLOCK_MONOTONIC does not go backwards within one run (arbitrary across suspend/resume)", "virtual clock via -Dclock_gettime redirect on Clock.c"],
    },
    "C18": {
        "shards": {"quick": 4, "thorough": 16},
        "timeout": {"quick": 600, "thorough": 3000},
        "leaks": True,
        "rule": "evaluation = one TPMLIB_Process call on the real TPM 1.2 (request bytes, response bytes, negotiated buffer size) judged by Model.Tpm12.Frame.wellFormed and compared with Model.Tpm12.Frame.process; distinct_nontrivial = distinct (ordinal, response-code class, request-tag class) triples reaching an ordinal body + distinct pre-body paths (rejected header / ordinal not in table, per tag class)",
        "partial": ["memory safety, undefined behaviour, leaks, hangs of the ordinal bodies: exploration only (every command of the campaign runs under ASan+UBSan+LSan with an exact-size heap copy of the request; a report ends the run as a violation), not a theorem",
                    "the ordinal bodies are abstract in the model (any return code, any output parameters); the theorems hold for every body, the per-body tag checks are checked by correspondence only",
                    "no_shutdown_from_input is about the framing layer; that no body returns TPM_FAIL for any input is exploration (any TPM_FAIL / TPM_FAILEDSELFTEST answer in the campaign is reported as a violation)",
                    "transport-wrapped commands (TPM_ExecuteTransport inner framing), DAA and key-loading prefixes are only reached with random/mutated bodies (no owner is installed: TakeOwnership needs RSA key generation)"],
        "modelled": COMMON_MODELLED + ["tpm12/tpm_process.c TPM_Process, TPM_Process_GetCommandParams, TPM_Process_Unused, TPM_Process_Init's missing StoreFinalResponse; tpm12/tpm_store.c StoreInitialResponse/StoreFinalResponse/AdjustParamSize/AdjustReturnCode; tpm12/tpm_sizedbuffer.c TPM_SizedBuffer_Load: modelled by hand in Model/Tpm12Frame.lean; ordinal table, tags, error codes, buffer limits generated (Gen/Tpm12.lean)"],
        "assumptions": ["TPM_Process_Preprocess returns 0 (self test passes, saved-state deletion and locality callback succeed) in the campaign", "localities 0..4 only"],
    },
    "C20": {
        "shards": {"quick": 4, "thorough": 16},
        "timeout": {"quick": 900, "thorough": 3400},
        "rule": "evaluation = one operation on the real TPM 1.2 (TPM_Extend / PCRRead / PCR_Reset / SHA1Start/Update/Complete/CompleteExtend / TPM_IO_Hash_Start/Data/End / TPM_IO_TpmEstablished_Get/Reset / Startup) whose return code and output bytes are predicted by Model.Tpm12.Core.step with the Lean SHA-1; distinct_nontrivial = distinct (operation, PCR class, locality, model return code) combinations + restart/resume classes",
        "partial": ["modelled services: PCR extend/read/reset with locality rules and reset values, SHA-1 thread, TIS hash interface, tpmEstablished, power cycle and suspend/resume of these. NOT modelled (not claimed): monotonic counters, NV areas and their permission bits, OIAP/OSAP authorization HMACs, ownership/enable/activate flag automaton, Startup(ST_STATE|ST_DEACTIVATED), TPM_SaveState",
                    "SHA-1 is a Lean definition validated by NIST vectors (examples in Props/C20.lean) and against the library's OpenSSL results on every SHA1Complete/Extend/Hash_End of the campaign; 'equals standard SHA-1 for every chunking' is proved as streaming = one-shot of this definition",
                    "the TPM is assumed enabled and activated (TPM_ENABLE_ACTIVATE build default); a second TPM_IO_Hash_Start without Hash_End is not exercised"],
        "modelled": COMMON_MODELLED + ["tpm12/tpm_pcr.c (TPM_ExtendCommon, TPM_Process_Extend/PcrRead/PcrReset, TPM_Locality_Check, TPM_PCR_Reset), tpm12/tpm_cryptoh.c SHA1 ordinals, TPM_Check_SHA1Context, TPM_CheckState, TPM_Process_Startup(ST_CLEAR), tpm_tpm12_tis.c: modelled by hand in Model/Tpm12Core.lean; PCR attributes, initial and reset values, error codes generated by calling the repo's TPM_PCRAttributes_Init / TPM_PCR_Init / TPM_PCR_Reset (Gen/Tpm12.lean)"],
        "assumptions": ["localities 0..4", "well-framed commands (framing is C18)"],
    },
}
