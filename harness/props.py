"""Per-property configuration of bin/check."""
COMMON_MODELLED = ["the C code itself is not verified: its link to the Lean model is the sampled correspondence (tpmdrv vs tpmmodel) plus the regenerated Gen/*.lean"]
PROPS = {
    "C16": {
        "claimed": True,
        "level_text": "Lean 4 theorems over Model.Clock for all histories/host-clock behaviours (TimerRead monotone and rate-exact, resume absorbs host regressions, ClockSet forward only, counter laws, safe laws; run_inv by induction over arbitrary op lists); the clause 'safe NO until Clock passes its previous value' is proved only under a lag hypothesis and its failure for the code as-is is a theorem + known finding F. Model tied to the code by regenerated constants and by trace correspondence under a virtual clock.",
        "shards": {"quick": 4, "thorough": 16},
        "timeout": {"quick": 600, "thorough": 3000},
        "rule": "evaluation = one TPM command (ReadClock/ClockSet/ClockRateAdjust/Startup/Shutdown/ClearControl/GetCapability) or restart/suspend/resume event replayed through Model.Clock; distinct_nontrivial = distinct (op, rc, stored?, safe) model outcomes + restart/resume host-clock classes hit",
        "partial": ["safe_until_passed: holds only under the hypothesis that the stored Clock lags the live one by < 2^NV_CLOCK_UPDATE_INTERVAL ms (theorem safe_until_passed_partial); its failure for the code as it is is theorem safe_until_passed_fails and known finding F",
                    "never ahead of elapsed host time: proved per TimerRead step (advance_le_host / advance_le_scaled); over many fine-grained polls at a faster rate it fails for the code as it is (theorem never_ahead_fails, known finding G)",
                    "monotonicity theorems carry explicit no-64-bit-overflow hypotheses (2^64 ms)"],
        "modelled": COMMON_MODELLED + ["Clock.c, Time.c, ClockCommands.c, counter part of TPM2_Startup/Shutdown, VolatileState v4 clock tail: modelled by hand in Model/Clock.lean; constants generated"],
        "assumptions": ["host CLOCK_MONOTONIC does not go backwards within one run (arbitrary across suspend/resume)", "virtual clock via -Dclock_gettime redirect on Clock.c"],
    },
    "C17": {
        "claimed": True,
        "level_text": "Lean 4 theorems over a complete transcription of TpmFailureMode: for ALL request byte strings the failure-mode answer is well-formed, is the bare TPM_RC_FAILURE header unless the command is GetTestResult/GetCapability(TPM_PROPERTIES), reports the recorded failure, and the failure-mode step changes no state and writes no storage (sticky by induction over command lists). Correspondence: thousands of requests to a real TPM driven into failure mode by storage faults, byte-for-byte, incl. through suspend/resume; forked oracles for failures outside command processing (stale jump buffer guard).",
        "shards": {"quick": 4, "thorough": 16},
        "timeout": {"quick": 600, "thorough": 3000},
        "rule": "evaluation = one command sent to a TPM in failure mode (response compared byte-for-byte with Model.FailMode.respond) ; distinct_nontrivial = distinct (request kind, response length, rc) classes + entry routes, API calls and forked oracles hit",
        "partial": ["'no failure outside command processing': not a theorem; explored by forked oracles (TPM_IO_Hash_* before MainInit / after Terminate / in failure mode, SetState garbage) with the longjmp guard",
                    "entry routes explored: refused commit at ClearControl / Shutdown (single and sticky fault); failure mode carried through suspend/resume"],
        "modelled": COMMON_MODELLED + ["TpmFail.c:TpmFailureMode transcribed completely in Model/FailMode.lean; platform constants generated"],
        "assumptions": ["RunCommand.c built with -Dlongjmp=verif_longjmp so a jump requested outside TPMLIB_Process is observable"],
    },
    "C11": {
        "claimed": True,
        "level_text": "Lean 4 theorems over a line-by-line model of Session.c for all states and sequence numbers: a context loads at most once per save (load_once), not after flush or TPM Reset, older sequence numbers are refused across the 8-/16-bit counter wrap (replay_rejected), ContextSave answers CONTEXT_GAP rather than reuse the oldest id and a refused save has no effect, slot accounting of create/save/load/flush, counter never aliases slot numbers. Correspondence: random and drilled histories with the counter written next to the wraps, every rc/handle/sequence/handle-list/HR_* property compared with the model; model-free oracles: altered or truncated blobs never load and have no effect, double load, load after reset.",
        "shards": {"quick": 4, "thorough": 16},
        "timeout": {"quick": 600, "thorough": 3000},
        "rule": "evaluation = one StartAuthSession/ContextSave/ContextLoad/FlushContext/GetCapability/Startup/resume event replayed through Model.Session, or one mutated-blob load; distinct_nontrivial = distinct (op, rc, model-branch) triples incl. counter-wrap and gap cases",
        "partial": ["context-blob integrity (HMAC) is exercised by the mutation oracle, not modelled; object contexts are exercised only through the mutation oracle"],
        "modelled": COMMON_MODELLED + ["Session.c accounting (create/save/load/flush/startup/oldest/gap) and SequenceNumberForSavedContextIsValid modelled in Model/Session.lean; gr.contextCounter and s_ContextSlotMask are written by the harness to reach the 8/16-bit wraps"],
        "assumptions": ["harness writes gr.contextCounter / s_ContextSlotMask only while no context is saved"],
    },
}
