"""Per-property configuration of bin/check."""
COMMON_MODELLED = ["the C code itself is not verified: its link to the Lean model is the sampled correspondence (tpmdrv vs tpmmodel) plus the regenerated Gen/*.lean"]
PROPS = {
    "C16": {
        "shards": {"quick": 4, "thorough": 16},
        "timeout": {"quick": 600, "thorough": 3000},
        "rule": "evaluation = one TPM command (ReadClock/ClockSet/ClockRateAdjust/Startup/Shutdown/ClearControl/GetCapability) or restart/suspend/resume event replayed through Model.Clock; distinct_nontrivial = distinct (op, rc, stored?, safe) model outcomes + restart/resume host-clock classes hit",
        "partial": ["safe_until_passed: holds only under the hypothesis that the stored Clock lags the live one by < 2^NV_CLOCK_UPDATE_INTERVAL ms (theorem safe_until_passed_partial); its failure for the code as it is is theorem safe_until_passed_fails and known finding F",
                    "monotonicity theorems carry explicit no-64-bit-overflow hypotheses (2^64 ms)"],
        "modelled": COMMON_MODELLED + ["Clock.c, Time.c, ClockCommands.c, counter part of TPM2_Startup/Shutdown, VolatileState v4 clock tail: modelled by hand in Model/Clock.lean; constants generated"],
        "assumptions": ["host CLOCK_MONOTONIC does not go backwards within one run (arbitrary across suspend/resume)", "virtual clock via -Dclock_gettime redirect on Clock.c"],
    },
    "C18": {
        "shards": {"quick": 4, "thorough": 16},
        "timeout": {"quick": 600, "thorough": 3000},
        "leaks": True,
        "rule": "evaluation = one TPMLIB_Process call on the real TPM 1.2 (request bytes, response bytes, negotiated buffer size) judged by Model.Tpm12.Frame.wellFormed and compared with Model.Tpm12.Frame.process; distinct_nontrivial = distinct (ordinal, response-code class, request-tag class) triples reaching an ordinal body + distinct pre-body paths (rejected header / ordinal not in table, per tag class)",
        "partial": ["memory safety, undefined behaviour, leaks, hangs of the ordinal bodies: exploration only (every command of the campaign runs under ASan+UBSan+LSan with an exact-size heap copy of the request; a report ends the run as a violation), not a theorem",
                    "the ordinal bodies are abstract in the model (any return code, any output parameters); the theorems hold for every body, the per-body tag checks are checked by correspondence only",
                    "no_shutdown_from_input is about the framing layer; that no body returns TPM_FAIL for any input is exploration (any TPM_FAIL / TPM_FAILEDSELFTEST answer in the campaign is reported as a violation)",
                    "transport-wrapped commands (TPM_ExecuteTransport inner framing), DAA and key-loading prefixes are only reached with random/mutated bodies (no owner is installed: TakeOwnership needs RSA key generation)"],
        "modelled": COMMON_MODELLED + ["tpm12/tpm_process.c TPM_Process, TPM_Process_GetCommandParams, TPM_Process_Unused, TPM_Process_Init's missing StoreFinalResponse; tpm12/tpm_store.c StoreInitialResponse/StoreFinalResponse/AdjustParamSize/AdjustReturnCode; tpm12/tpm_sizedbuffer.c TPM_SizedBuffer_Load: modelled by hand in Model/Tpm12Frame.lean; ordinal table, tags, error codes, buffer limits generated (Gen/Tpm12.lean)"],
        "assumptions": ["TPM_Process_Preprocess returns 0 (self test passes, saved-state deletion and locality callback succeed) in the campaign", "localities 0..4 only"],
    },
}
