/* C16: time and reset counters.  Emits abstract ops + observables; the Lean model (Model.Clock) predicts them. */
static void c16_host(void) { tr("host mono=%llu real=%llu", (unsigned long long)(g_mono_ns / 1000000ULL), (unsigned long long)(g_real_ns / 1000000ULL)); }

static void c16_readclock(Buf *b) {
    cmd_begin(b, ST_NO_SESSIONS, CC_ReadClock);
    Rsp r = run(b);
    if (r.rc == 0 && r.len >= 10 + 25) {
        const uint8_t *p = r.p + 10;
        tr("cmd op=readclock rc=0 stores=%ld time=%llu clock=%llu reset=%u restart=%u safe=%u", g_store_in_cmd,
           (unsigned long long)g64(p), (unsigned long long)g64(p + 8), g32(p + 16), g32(p + 20), p[24]);
    } else tr("cmd op=readclock rc=%u stores=%ld", r.rc, g_store_in_cmd);
}
static void c16_clockset(Buf *b, uint64_t v) {
    cmd_begin(b, ST_SESSIONS, CC_ClockSet); b_u32(b, RH_OWNER); auth_pw(b, "", 0); b_u64(b, v);
    Rsp r = run(b);
    tr("cmd op=clockset v=%llu rc=%u stores=%ld", (unsigned long long)v, r.rc, g_store_in_cmd);
}
static void c16_rateadjust(Buf *b, int a /* -3..3 */) {
    cmd_begin(b, ST_SESSIONS, CC_ClockRateAdjust); b_u32(b, RH_OWNER); auth_pw(b, "", 0); b_u8(b, (uint8_t)(int8_t)a);
    Rsp r = run(b);
    tr("cmd op=rateadjust a=%d rc=%u stores=%ld", a + 3, r.rc, g_store_in_cmd);
}
static void c16_commitcmd(Buf *b) {
    cmd_begin(b, ST_SESSIONS, CC_ClearControl); b_u32(b, RH_PLATFORM); auth_pw(b, "", 0); b_u8(b, 0);
    Rsp r = run(b);
    tr("cmd op=commitcmd rc=%u stores=%ld", r.rc, g_store_in_cmd);
}
static void c16_neutral(Buf *b) {
    cmd_begin(b, ST_NO_SESSIONS, CC_GetCapability); b_u32(b, 6); b_u32(b, 0x100); b_u32(b, 1);
    Rsp r = run(b);
    tr("cmd op=neutral rc=%u stores=%ld", r.rc, g_store_in_cmd);
}
static void c16_startup(Buf *b, int su) { Rsp r = tpm2_startup(b, su); tr("cmd op=startup su=%d rc=%u stores=%ld", su, r.rc, g_store_in_cmd); }
static void c16_shutdown(Buf *b, int su) { Rsp r = tpm2_shutdown(b, su); tr("cmd op=shutdown su=%d rc=%u stores=%ld", su, r.rc, g_store_in_cmd); }

static uint64_t c16_step_ms(void) {
    switch (rnd(10)) {
    case 0: return 0;
    case 1: return 1;
    case 2: return rnd(50);
    case 3: return 1000 + rnd(3000);
    case 4: return 4095 + rnd(3);
    case 5: return 60000ULL * (1 + rnd(20));
    case 6: return 86400000ULL * (1 + rnd(400));
    case 7: return 4096;
    default: return rnd(10000);
    }
}

/* scripted history reproducing known finding F (DESIGN.md section 10): runs first in every shard */
static void c16_scripted_F(Buf *b) {
    tr("hist -1 scripted-F");
    g_mono_ns = 1000ULL * 1000000ULL; g_real_ns = 1700000000000000000ULL; c16_host();
    tpm2_fresh(NULL); tr("fresh");
    c16_startup(b, 0);
    for (int i = 0; i < 10; i++) { clock_advance_ms(60000); c16_host(); c16_readclock(b); }
    clock_advance_ms(100000); c16_host();
    TPM_RESULT ret = tpm2_powercycle(); tr("restart ret=%u orderly=0", ret);
    c16_startup(b, 0); c16_readclock(b);
    clock_advance_ms(2000); c16_host(); c16_readclock(b);
    clock_advance_ms(3000); c16_host(); c16_readclock(b);
}

/* scripted history reproducing known finding G: at a faster-than-nominal rate, polling the TPM every millisecond makes
 * Clock run about twice as fast as the host (the two floor divisions in _plat__TimerRead lose the remainder) */
static void c16_scripted_G(Buf *b) {
    tr("hist -2 scripted-G");
    g_mono_ns = 5000ULL * 1000000ULL; g_real_ns = 1700000000000000000ULL; c16_host();
    tpm2_fresh(NULL); tr("fresh");
    c16_startup(b, 0);
    c16_rateadjust(b, 3);
    c16_readclock(b);
    for (int i = 0; i < 2000; i++) { clock_advance_ms(1); c16_host(); if (i % 200 == 199) c16_readclock(b); else c16_neutral(b); }
}

static void scen_c16(int histories, int maxops) {
    Buf b = {0};
    c16_scripted_F(&b);
    c16_scripted_G(&b);
    for (int h = 0; h < histories; h++) {
        tr("hist %d", h);
        g_mono_ns = (1 + rnd(1000000)) * 1000000ULL;
        g_real_ns = 1700000000000000000ULL + rnd(1000000) * 1000000ULL;
        c16_host();
        tpm2_fresh(h % 3 == 0 ? NULL : (h % 3 == 1 ? PROFILE_DEFAULT_V1 : PROFILE_CUSTOM));
        tr("fresh");
        c16_startup(&b, 0);
        int n = 5 + rnd(maxops);
        for (int i = 0; i < n; i++) {
            if (chance(70)) { clock_advance_ms(c16_step_ms()); c16_host(); }
            switch (rnd(16)) {
            case 0: case 1: case 2: case 3: c16_readclock(&b); break;
            case 4: { /* clockset: forward a bit, far, backwards, boundary */
                uint64_t cur = 0; /* harness does not know the clock; pick from recent host-based guesses */
                uint64_t v;
                switch (rnd(5)) {
                case 0: v = rnd(100000); break;
                case 1: v = rnd64() % 0xFFFF000000000000ULL; break;
                case 2: v = 0xFFFF000000000000ULL + rnd(2); break;
                case 3: v = (g_mono_ns / 1000000ULL) % 100000000ULL; break;
                default: v = 1000ULL * rnd(1000000); break;
                }
                (void)cur; c16_clockset(&b, v); break; }
            case 5: case 6: c16_rateadjust(&b, (int)rnd(7) - 3); break;
            case 7: c16_commitcmd(&b); break;
            case 8: c16_neutral(&b); break;
            case 9: { /* orderly shutdown + restart */
                int su = rnd(2);
                c16_shutdown(&b, su);
                if (chance(30)) { clock_advance_ms(c16_step_ms()); c16_host(); c16_readclock(&b); }
                if (chance(20)) c16_commitcmd(&b);
                clock_advance_ms(c16_step_ms()); c16_host();
                TPM_RESULT ret = tpm2_powercycle();
                tr("restart ret=%u orderly=1", ret);
                int su2 = chance(70) ? su : rnd(2);
                c16_startup(&b, su2);
                if (g_n_cmds && g_respbuf && g32(g_respbuf + 6) != 0) c16_startup(&b, 0);
                break; }
            case 10: { /* power cut without shutdown */
                if (chance(50)) { clock_advance_ms(rnd(100000)); c16_host(); }
                /* host monotonic clock may restart from a small value (host reboot) */
                if (chance(40)) { g_mono_ns = (1 + rnd(5000)) * 1000000ULL; g_real_ns += rnd(1000000) * 1000000ULL; c16_host(); }
                TPM_RESULT ret = tpm2_powercycle();
                tr("restart ret=%u orderly=0", ret);
                c16_startup(&b, chance(85) ? 0 : 1);
                if (g32(g_respbuf + 6) != 0) c16_startup(&b, 0);
                break; }
            case 11: case 12: { /* suspend / resume with host clock behaviours */
                tr("suspend");
                unsigned char *pb = NULL, *vb = NULL; uint32_t pl = 0, vl = 0;
                TPM_RESULT r1 = TPMLIB_GetState(TPMLIB_STATE_PERMANENT, &pb, &pl);
                TPM_RESULT r2 = TPMLIB_GetState(TPMLIB_STATE_VOLATILE, &vb, &vl);
                TPMLIB_Terminate();
                switch (rnd(5)) {
                case 0: break;                                                        /* same */
                case 1: clock_advance_ms(c16_step_ms()); break;                       /* later */
                case 2: g_mono_ns = (1 + rnd(5000)) * 1000000ULL; g_real_ns += c16_step_ms() * 1000000ULL; break; /* host rebooted */
                case 3: g_mono_ns += 86400000ULL * 1000000ULL * (1 + rnd(1000)); g_real_ns += 86400000ULL * 1000000ULL * (1 + rnd(1000)); break; /* much later */
                case 4: g_mono_ns = (1 + rnd(5000)) * 1000000ULL; g_real_ns -= (1 + rnd(100000)) * 1000000ULL; break; /* realtime stepped back */
                }
                c16_host();
                TPM_RESULT r3 = TPMLIB_SetState(TPMLIB_STATE_PERMANENT, pb, pl);
                TPM_RESULT r4 = TPMLIB_SetState(TPMLIB_STATE_VOLATILE, vb, vl);
                TPM_RESULT r5 = TPMLIB_MainInit();
                free(pb); free(vb);
                tr("resume ret=%u", r1 | r2 | r3 | r4 | r5);
                break; }
            default: c16_readclock(&b); break;
            }
        }
        c16_readclock(&b);
    }
    b_free(&b);
}
