/* tpmdrv: in-process driver of the real library (sanitized rebuild of /repo's working tree).
 * usage: tpmdrv <Cxx> <seed> <quick|thorough> <trace-out> [extra]                                  */
#include "core.h"
#include "gen.h"
#include "scen_c16.h"
#include "scen_c11.h"
#include "scen_c08.h"
#include "scen_c02.h"
#include "scen_c17.h"
#include "scen_persist.h"
#include "scen_c06.h"
#include "scen_c01.h"
#include "scen_c13.h"
#include "scen_c04.h"
#include "scen_c10.h"
#include "scen_c09.h"
#include "scen_c15.h"
#include "scen_c14.h"
#include "scen_c12.h"
#include "scen_tpm12.h"

int main(int argc, char **argv) {
    if (argc < 5) { fprintf(stderr, "usage: tpmdrv Cxx seed tier trace [extra]\n"); return 2; }
    const char *prop = argv[1];
    uint64_t seed = strtoull(argv[2], NULL, 10);
    int thorough = !strcmp(argv[3], "thorough");
    g_tr = fopen(argv[4], "w");
    if (!g_tr) { perror("trace"); return 2; }
    if (getenv("VERIF_LINEBUF")) setvbuf(g_tr, NULL, _IOLBF, 0);   /* crash diagnosis: the last line is in the file */
    /* the generator steps by a constant: seeds must not differ by a small multiple of it, or neighbouring shards would walk the
       same stream one draw apart */
    if (getenv("VERIF_SEED_V1")) g_rng = seed * 0x9E3779B97F4A7C15ULL + 12345;   /* the seeding of traces recorded before it was changed */
    else { uint64_t z = seed + 0x632BE59BD9B4E019ULL; z = (z ^ (z >> 30)) * 0xBF58476D1CE4E5B9ULL; z = (z ^ (z >> 27)) * 0x94D049BB133111EBULL; g_rng = z ^ (z >> 31); }
    g_ent = seed ^ 0xDEADBEEFCAFEF00DULL;
    if (getenv("VERIF_RESP_DUMP")) g_resp_dump = fopen(getenv("VERIF_RESP_DUMP"), "w");
    { extern void verif_snapshot_statics(void); verif_snapshot_statics(); }   /* load-time image of the TPM 2 globals (new-process emulation) */
    TPMLIB_SetDebugLevel(0);
    tr("meta prop=%s seed=%llu tier=%s", prop, (unsigned long long)seed, argv[3]);
    if (!strcmp(prop, "C16")) scen_c16(thorough ? 400 : 40, thorough ? 120 : 50);
    else if (!strcmp(prop, "C17")) scen_c17(thorough ? 60 : 8, thorough ? 400 : 150);
    else if (!strcmp(prop, "C11")) scen_c11(thorough ? 300 : 30, thorough ? 200 : 80);
    else if (!strcmp(prop, "C08")) scen_c08(thorough ? 400 : 40, thorough ? 150 : 60);
    else if (!strcmp(prop, "C02")) scen_c02(thorough ? 120 : 12, thorough ? 60 : 30, thorough);
    else if (!strcmp(prop, "C03")) scen_c03(thorough ? 150 : 14, thorough ? 80 : 40, thorough ? 35 : 12);
    else if (!strcmp(prop, "C05")) scen_c05(thorough ? 120 : 12, thorough ? 60 : 25, thorough ? 30 : 5);
    else if (!strcmp(prop, "C07")) scen_c07(thorough ? 200 : 20, thorough ? 40 : 20);
    else if (!strcmp(prop, "C06")) scen_c06(thorough ? 12 : 3, 30, thorough ? 2200 : 350);
    else if (!strcmp(prop, "C01")) scen_c01(thorough ? 40 : 5, 25, thorough ? 1500 : 400);
    else if (!strcmp(prop, "C13")) scen_c13(thorough ? 2500 : 250, thorough ? 3 : 1);
    else if (!strcmp(prop, "C12")) scen_c12(thorough ? 120 : 9, thorough ? 150 : 60, thorough);
    else if (!strcmp(prop, "C14")) scen_c14(thorough ? 400 : 40);
    else if (!strcmp(prop, "C15")) scen_c15(thorough ? 4 : 3, thorough ? 400 : 60, 12, (int)(seed % 1000), thorough ? 16 : 6);
    else if (!strcmp(prop, "C09")) scen_c09(thorough ? 100 : 8, thorough ? 500 : 200);
    else if (!strcmp(prop, "C10")) scen_c10(thorough ? 120 : 10, thorough ? 400 : 150);
    else if (!strcmp(prop, "C04")) scen_c04(thorough ? 60 : 6, thorough ? 400 : 150);
    else if (!strcmp(prop, "C18")) scen_c18(thorough ? 60 : 12, thorough ? 4000 : 1500);
    else if (!strcmp(prop, "C19")) scen_c19(thorough ? 200 : 10, thorough ? 120 : 80);
    else if (!strcmp(prop, "C20")) scen_c20(thorough ? 400 : 24, thorough ? 300 : 250);
    else if (!strcmp(prop, "R12") && argc >= 6) scen_replay12(argv[5]);
    else { fprintf(stderr, "no scenario for %s\n", prop); return 2; }
    TPMLIB_Terminate();
    tr("end cmds=%ld ok=%ld faults=%ld", g_n_cmds, g_n_ok, g_fault_fired);
    fclose(g_tr);
    free(g_respbuf);
    return 0;
}
