/* C11, object contexts: a saved object context loads only while the TPM has not been reset, the proof of its hierarchy has
   not been replaced (Clear, ChangeEPS, ChangePPS; a Reset for the null hierarchy), its hierarchy is enabled and — for an
   stClear object — no Restart happened; a loaded context behaves like the original (same Name, same HMAC results). */
typedef struct { uint8_t *p; uint32_t n; int hier; int stclear; uint8_t mac[32]; uint8_t name[34]; int nl; int id; int epoch; int seq; uint8_t part1[40]; int p1l; } OCtx;
#define C11O_MAX 10
static OCtx c11o[C11O_MAX]; static int c11o_n, c11o_next;
static const uint32_t C11_HIER[4] = {RH_OWNER, RH_ENDORSEMENT, RH_PLATFORM, RH_NULL};
#ifndef CC_SetCommandCodeAuditStatus
#define CC_SetCommandCodeAuditStatus 0x140
#endif

static void c11o_reset(void) { for (int i = 0; i < c11o_n; i++) free(c11o[i].p); c11o_n = 0; }

static int c11o_hmac(Buf *b, uint32_t h, uint8_t out[32]) {
    cmd_begin(b, ST_SESSIONS, CC_HMAC); b_u32(b, h); auth_pw(b, "", 0); b_2b(b, "context test", 12); b_u16(b, ALG_SHA256);
    Rsp r = run(b); if (r.rc != 0) return -1;
    Rd rd = rsp_params(&r, 0); uint16_t l; const uint8_t *d = r_2b(&rd, &l); if (rd.err || l != 32) return -1; memcpy(out, d, 32); return 0;
}
static int c11o_name(Buf *b, uint32_t h, uint8_t out[34]) {
    cmd_begin(b, ST_NO_SESSIONS, CC_ReadPublic); b_u32(b, h); Rsp r = run(b); if (r.rc != 0) return -1;
    uint16_t pl = g16(r.p + 10); int nl = g16(r.p + 12 + pl); if (nl > 34) return -1; memcpy(out, r.p + 14 + pl, nl); return nl;
}
/* a fresh HMAC key as a primary of a random hierarchy; saved, then (mostly) flushed */
static void c11o_save_new(Buf *b) {
    if (c11o_n >= C11O_MAX) { free(c11o[0].p); memmove(&c11o[0], &c11o[1], sizeof(OCtx) * (C11O_MAX - 1)); c11o_n--; }
    int hi = rnd(4), stclear = chance(25);
    Buf t = {0}; uint8_t uq[4]; for (int i = 0; i < 4; i++) uq[i] = rnd(256);
    b_u16(&t, ALG_KEYEDHASH); b_u16(&t, ALG_SHA256); b_u32(&t, 0x00040472u | (stclear ? 4u : 0u)); b_u16(&t, 0); b_u16(&t, ALG_HMAC); b_u16(&t, ALG_SHA256); b_2b(&t, uq, 4);
    cmd_begin(b, ST_SESSIONS, CC_CreatePrimary); b_u32(b, C11_HIER[hi]); auth_pw(b, "", 0); b_u16(b, 4); b_u16(b, 0); b_u16(b, 0); b_2b(b, t.p, t.n); b_u16(b, 0); b_u32(b, 0);
    b_free(&t);
    Rsp r = run(b);
    if (r.rc != 0 || r.len < 14) { tr("o op=create hier=%d stclear=%d rc=%u", hi, stclear, r.rc); return; }
    uint32_t h = g32(r.p + 10);
    OCtx *c = &c11o[c11o_n]; memset(c, 0, sizeof *c); c->hier = hi; c->stclear = stclear; c->id = c11o_next++;
    int ok = c11o_hmac(b, h, c->mac) == 0; c->nl = c11o_name(b, h, c->name); if (c->nl < 0) ok = 0;
    cmd_begin(b, ST_NO_SESSIONS, CC_ContextSave); b_u32(b, h); r = run(b);
    if (ok && r.rc == 0 && r.len > 28) {
        uint64_t seq = g64(r.p + 10); uint32_t sh = g32(r.p + 18); uint32_t hier = g32(r.p + 22); uint8_t proof[64]; int pl = verif_get_proof(hier, proof);
        tr_begin("s op=ctxblob seq=%llu saved_h=%u hier=%u total=%llu clear=%u", (unsigned long long)seq, sh, hier, (unsigned long long)verif_get_totalResetCount(), verif_get_clearCount());
        trhex("proof", proof, pl > 0 ? pl : 0); trhex("blob", r.p + 28, g16(r.p + 26)); tr_end();
        c->n = r.len - 10; c->p = malloc(c->n); memcpy(c->p, r.p + 10, c->n); c11o_n++;
        tr("o op=save id=%d hier=%d stclear=%d saved_h=%u ctxhier=%u rc=0", c->id, hi, stclear, sh, hier);
    } else tr("o op=save id=-1 hier=%d stclear=%d rc=%u", hi, stclear, r.rc ? r.rc : 1);
    cmd_begin(b, ST_NO_SESSIONS, CC_FlushContext); b_u32(b, h); run(b);
}

/* a SHA-256 hash sequence with some data absorbed, saved and flushed: its context lives in the null hierarchy */
static void c11o_save_seq(Buf *b) {
    if (c11o_n >= C11O_MAX) { free(c11o[0].p); memmove(&c11o[0], &c11o[1], sizeof(OCtx) * (C11O_MAX - 1)); c11o_n--; }
    cmd_begin(b, ST_NO_SESSIONS, CC_HashSequenceStart); b_u16(b, 0); b_u16(b, ALG_SHA256); Rsp r = run(b);
    if (r.rc != 0 || r.len < 14) { tr("o op=create hier=3 stclear=0 rc=%u", r.rc); return; }
    uint32_t h = g32(r.p + 10);
    OCtx *c = &c11o[c11o_n]; memset(c, 0, sizeof *c); c->hier = 3; c->id = c11o_next++; c->seq = 1; c->p1l = rnd(40); for (int i = 0; i < c->p1l; i++) c->part1[i] = rnd(256);
    cmd_begin(b, ST_SESSIONS, CC_SequenceUpdate); b_u32(b, h); auth_pw(b, "", 0); b_2b(b, c->part1, c->p1l); run(b);
    cmd_begin(b, ST_NO_SESSIONS, CC_ContextSave); b_u32(b, h); r = run(b);
    if (r.rc == 0 && r.len > 28) {
        uint64_t seq = g64(r.p + 10); uint32_t sh = g32(r.p + 18); uint32_t hier = g32(r.p + 22); uint8_t proof[64]; int pl = verif_get_proof(hier, proof);
        tr_begin("s op=ctxblob seq=%llu saved_h=%u hier=%u total=%llu clear=%u", (unsigned long long)seq, sh, hier, (unsigned long long)verif_get_totalResetCount(), verif_get_clearCount());
        trhex("proof", proof, pl > 0 ? pl : 0); trhex("blob", r.p + 28, g16(r.p + 26)); tr_end();
        c->n = r.len - 10; c->p = malloc(c->n); memcpy(c->p, r.p + 10, c->n); c11o_n++;
        tr("o op=save id=%d hier=3 stclear=0 seq=1 saved_h=%u ctxhier=%u rc=0", c->id, sh, hier);
    } else tr("o op=save id=-1 hier=3 stclear=0 seq=1 rc=%u", r.rc ? r.rc : 1);
    cmd_begin(b, ST_NO_SESSIONS, CC_FlushContext); b_u32(b, h); run(b);
}
/* load a saved object context (unmodified, or with one altered byte); a loaded one is compared with the original and flushed */
static void c11o_load(Buf *b) {
    if (!c11o_n) return;
    OCtx *c = &c11o[rnd(c11o_n)];
    if (chance(12)) {   /* altered blob: never loads */
        uint8_t *m = malloc(c->n); memcpy(m, c->p, c->n); uint32_t off = rnd(c->n); m[off] ^= 1 << rnd(8);
        Rsp r = c11_load_raw(b, m, c->n); free(m);
        tr("o op=mutload id=%d off=%u rc=%u", c->id, off, r.rc);
        if (r.rc == 0 && r.len >= 14) { cmd_begin(b, ST_NO_SESSIONS, CC_FlushContext); b_u32(b, g32(r.p + 10)); run(b); }
        return;
    }
    Rsp r = c11_load_raw(b, c->p, c->n);
    if (r.rc != 0 || r.len < 14) { tr("o op=load id=%d rc=%u", c->id, r.rc); return; }
    uint32_t h = g32(r.p + 10);
    if (c->seq) {   /* the loaded sequence continues where the saved one stood */
        uint8_t part2[24]; int p2l = rnd(24); for (int i = 0; i < p2l; i++) part2[i] = rnd(256);
        cmd_begin(b, ST_SESSIONS, CC_SequenceComplete); b_u32(b, h); auth_pw(b, "", 0); b_2b(b, part2, p2l); b_u32(b, RH_NULL); Rsp sc = run(b);
        tr_begin("o op=load id=%d rc=0 seq=1 complete_rc=%u", c->id, sc.rc); trhex("part1", c->part1, c->p1l); trhex("part2", part2, p2l);
        if (sc.rc == 0) { Rd rd = rsp_params(&sc, 0); uint16_t dl; const uint8_t *d = r_2b(&rd, &dl); if (!rd.err) trhex("digest", d, dl); }
        else { cmd_begin(b, ST_NO_SESSIONS, CC_FlushContext); b_u32(b, h); run(b); }
        tr_end(); return; }
    uint8_t mac[32], name[34]; int mok = c11o_hmac(b, h, mac) == 0; int nl = c11o_name(b, h, name);
    tr("o op=load id=%d rc=0 same_mac=%d same_name=%d", c->id, mok && !memcmp(mac, c->mac, 32), nl == c->nl && !memcmp(name, c->name, nl > 0 ? nl : 0));
    cmd_begin(b, ST_NO_SESSIONS, CC_FlushContext); b_u32(b, h); run(b);
}
/* events that end (or do not end) the life of object contexts; restarts are done by the session part of the scenario */
static void c11o_event(Buf *b) {
    int k = rnd(8);
    if (k == 0) { cmd_begin(b, ST_SESSIONS, CC_Clear); b_u32(b, chance(50) ? RH_PLATFORM : RH_LOCKOUT); auth_pw(b, "", 0); Rsp r = run(b); tr("o op=event kind=clear rc=%u", r.rc); }
    else if (k == 1) { cmd_begin(b, ST_SESSIONS, CC_ChangeEPS); b_u32(b, RH_PLATFORM); auth_pw(b, "", 0); Rsp r = run(b); tr("o op=event kind=changeEPS rc=%u", r.rc); }
    else if (k == 2) { cmd_begin(b, ST_SESSIONS, CC_ChangePPS); b_u32(b, RH_PLATFORM); auth_pw(b, "", 0); Rsp r = run(b); tr("o op=event kind=changePPS rc=%u", r.rc); }
    else { int hi = rnd(2); int state = chance(55);
        cmd_begin(b, ST_SESSIONS, CC_HierarchyControl); b_u32(b, RH_PLATFORM); auth_pw(b, "", 0); b_u32(b, C11_HIER[hi]); b_u8(b, state); Rsp r = run(b);
        tr("o op=event kind=control hier=%d state=%d rc=%u", hi, state, r.rc); }
}
