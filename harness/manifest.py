#!/usr/bin/env python3
"""Regenerate /verif/MANIFEST.json from harness/props.py (claimed checks) — keeps it valid at all times."""
import json, os, sys
sys.path.insert(0, os.path.dirname(os.path.abspath(__file__)))
import props as P
VERIF = os.path.dirname(os.path.dirname(os.path.abspath(__file__)))
TECH = "Lean 4 proof over hand-written executable model + trace correspondence (differential) + regenerated constants/tables"
m = {
 "version": 1,
 "setup_cmd": "cd /verif && python3 harness/setup.py",
 "hooks": {"guard": "LIBTPMS_VERIF",
           "enable": "none in /repo: checks rebuild /repo's unmodified sources with clang ASan+UBSan and per-file -D redirects (clock_gettime, RAND_bytes/rand, _plat__IsCanceled, longjmp; see harness/build.py); -DLIBTPMS_VERIF is passed to the harness build only",
           "baseline_off_cmd": "make -C /repo check", "source_commits": [], "add_only": True},
 "engines": [{"name": "lean-proof+correspondence", "path": "bin/check", "serves_properties": sorted(k for k, v in P.PROPS.items() if v.get("claimed")),
              "kind_free_text": "Lean 4 theorems about an executable model (lean/TpmVerif), model tied to /repo by regenerated tables (harness/extract_*.c) and by trace correspondence (harness/tpmdrv.c vs lean_exe tpmmodel)"}],
 "checks": [],
 "notes": "See DESIGN.md. A property is listed under checks only when its PROVE and CAMPAIGN steps exist and pass on the unchanged tree. Repairs of genuine defects in /repo are 'fix:' commits recorded in known_findings.txt.",
 "not_applicable": [],
}
for i in range(1, 21):
    pid = "C%02d" % i
    cfg = P.PROPS.get(pid)
    if cfg and cfg.get("claimed"):
        m["checks"].append({
            "property_id": pid, "quick_cmd": "bin/check %s --tier quick" % pid, "thorough_cmd": "bin/check %s --tier thorough" % pid,
            "evidence_file": "evidence/%s.json" % pid, "replay_cmd_template": "bin/check %s --replay {path}" % pid,
            "engine": "lean-proof+correspondence",
            "level_claimed": {"category": "proof", "text": cfg["level_text"], "design_ref": "DESIGN.md section 7 " + pid},
            "level_note": cfg.get("level_note", "Trusted: Lean kernel; axioms propext/Classical.choice/Quot.sound; extractor and harness. ") + " Modelled, not verified: " + "; ".join(cfg.get("modelled", [])[1:]) + ". Partial: " + "; ".join(cfg.get("partial", [])),
            "technique": cfg.get("technique", TECH)})
    else:
        m["not_applicable"].append({"property_id": pid, "reason": "not yet claimed: model/check under construction in this round (DESIGN.md section 11 construction order); no technique switch"})
json.dump(m, open(os.path.join(VERIF, "MANIFEST.json"), "w"), indent=1)
print("claimed:", [c["property_id"] for c in m["checks"]])
